# C09: schema compilers emit Go code that implements the schema.
#   run_tl(ck)   TL half: tl/parser (spec/TlSem.tla, spec/gen/TlShape_Gen.tla, spec/trace/TlSem_Trace.tla)
#   run_tlb(ck)  TL-B half: tlb/parser (spec/TlbMini.tla, spec/gen/TlbShape_Gen.tla incl. its Either and unnamed-field families, spec/trace/TlbMini_Trace.tla)
#   run_hist(ck) generation is a function of its input: spec/GenHist.tla, spec/gen/GenHist_Gen.tla (histories of generator calls),
#                spec/trace/GenHist_Trace.tla; harness/internal/c09/gen/hist.go runs each history in a process of its own
import copy, json, os, re, shutil, sys
import vlib
from vlib import Infra, log

RULE = ("TL half. S->C (programs x inputs): TlShape_Gen (TLC) enumerates schema shapes — every single-field shape over the alphabet "
        "{int long int256 bytes string Bool # bare-ref boxed-sum-ref (vector T) (vector (vector int)); mode.N?T for N in {0,1,7,15,31}, T incl. `true`, "
        "declared and vector types} and CRC-sampled sequences of 2..4 kinds — each embedded in a schema with a bare record, a 2..5-constructor sum, a "
        "single-constructor type, a 2..5-constructor union carrying rotations of the shape and three functions; ids = TlSem!ConstructorId. For each "
        "schema TLC emits values with the bytes TlSem!Enc requires. The runner renders the AST to .tl, runs /repo's tl/parser (twice: outputs must be "
        "identical), compiles all generated packages in one go build per batch (compile failure = violation), and the driver compares UnmarshalTL / "
        "MarshalTL / LiteapiRequestDecoder / request methods (request bytes handed to liteServerRequest, returned value or LiteServerErrorC) with the "
        "vectors. Families F and L of TlShape_Gen are always included: F = conditional bytes / string / (vector int) / (vector t.inner) fields with a field after them "
        "whose value is EMPTY while the bit is set (every value is marshalled with its empty slices as nil and as non-nil slices; TLC's `wrong` = the bytes with the "
        "empty field left out is a canary for both judges); L = vectors on both sides of 64 KiB / (element size + 1) elements (int long int256 t.inner; thorough "
        "Bool bytes) followed by a field and as last field, through UnmarshalTL / MarshalTL and the answer of a request method; I = the constructors of the two "
        "multi-constructor types declared non-contiguously (t.alt1 t.alt2 t.u1 t.u2 t.alt3 t.u3 [t.alt4]), every constructor alone and as a request's answer; "
        "B = Bool first / last / as vector element with refusal vectors (op Rej): the bytes of a value with the word at the Bool position replaced by zero, the "
        "byte-swapped ids, all ones, boolTrue + 1, 1 -- TlSem!Dec refuses them (checked by TLC), UnmarshalTL must too. C->S: random larger schemas (1..40 declarations, every flag bit 0..31, explicit random ids) -> generated code -> recorded Marshal / "
        "Unmarshal / Call events judged by TlSem_Trace with the schema carried in the segment's Reset event. distinct = vectors replayed + events accepted.")

BUILTIN = ["int", "long", "int256", "bytes", "string", "Bool", "#"]


def camel(s):
    """the bindings' naming convention (dots, underscores and digits start a new word)"""
    out, up = [], True
    for c in s:
        if c.isalpha():
            out.append(c.upper() if up and c.islower() else c)
            up = False
        elif c.isdigit():
            out.append(c)
            up = True
        else:
            up = True
    return "".join(out)


# ----------------------------------------------------------------------------------- schemas
TFBASE, TLBASE, TIBASE, TBBASE = 9_000_000, 9_100_000, 9_200_000, 9_300_000     # TlShape_Gen!FBase, LBase, IBase, BBase


def shape_numbers(ck):
    """which shapes TLC is asked for: quick 60 (40 single-field + 20 sequences), thorough 2000 (all 73 single-field + sequences)"""
    NA, NP, NB = 73, 18, 5
    if ck.thorough:
        singles = list(range(NA))
        multi = 2000 - NA
    else:
        singles = list(range(NP))
        for t in range(11):                       # each flagged type with two of the five bits, chosen by the seed
            for j in range(2):
                singles.append(NP + t * NB + (ck.seed + t + 2 * j) % NB)
        multi = 60 - len(singles)
    base = NA + (ck.seed % 1000) * 5000
    # TlShape_Gen families: F (conditional bytes / string / vector fields with an EMPTY value while the bit is set, a field after them),
    # L (vectors longer than 64 KiB / (element size + 1), a field after them / last; quick: int long int256 t.inner, thorough: + Bool bytes)
    # I: the constructors of the two multi-constructor types declared non-contiguously (interleaved)
    fam = [TFBASE + i for i in range(8)] + [TLBASE + i for i in range(12 if ck.thorough else 8)] + [TIBASE + i for i in range(4)] + [TBBASE + i for i in range(3)]      # B: Bool positions with refusal vectors (op Rej)
    return singles + [base + i for i in range(multi)] + fam


def gen_shapes(ck):
    ns = shape_numbers(ck)
    per = 50 if ck.thorough else 20
    shards = 16 if ck.thorough else 8
    def one(i):
        mine = ns[i::shards]
        if not mine:
            return []
        cfg = "CONSTANTS\n  Seed = %d\n  Ns = {%s}\n  PerSchema = %d\nSPECIFICATION Spec\nINVARIANT Emit\nCHECK_DEADLOCK FALSE\n" % (
            ck.seed, ", ".join(map(str, mine)), per)
        p = os.path.join(ck.work, "TlShape_Gen_%02d.cfg" % i)
        open(p, "w").write(cfg)
        res = ck.tlc_or_infra("TlShape_Gen", os.path.relpath(p, vlib.SPEC), name="shape%02d" % i, timeout=1800, heap_gb=3)
        v = res.vecs()
        if len(v) != len(mine):
            raise Infra("TlShape_Gen shard %d emitted %d of %d schemas" % (i, len(v), len(mine)))
        return v
    out = [s for part in vlib.parallel(one, range(shards), n=8) for s in part]
    out.sort(key=lambda s: s["schema"])
    return out


SUMCOND = "sum-constructor-with-conditional-field"


def random_schema(rng, sid, sum_flags):
    """a larger random schema in dependency order, conventional naming (constructor = lower-cased result name for
    single-constructor types), explicit random ids, optional fields over every bit 0..31"""
    used_ids = {"bba9e148"}
    def new_id():
        while True:
            h = "%08x" % rng.getrandbits(32)
            if h not in used_ids:
                used_ids.add(h)
                return h
    types = [{"ctor": "liteServer.error", "id": "bba9e148", "result": "liteServer.Error",
              "fields": [{"name": "code", "ty": "int"}, {"name": "message", "ty": "string"}]}]
    functions = []
    bare, sums, results = [], [], []      # names usable in later declarations
    words = ["id", "seq_no", "data", "root_hash", "lt", "count", "flag_x", "proof", "items", "w1", "a2b", "key", "val", "utime", "shard_id", "z"]
    def fields(maxn, flags_ok=True):
        n = rng.randint(0, maxn)
        names = rng.sample(words, n)
        fs, have_mode = [], False
        for nm in names:
            def base():
                r = rng.random()
                if r < 0.55 or not (bare or sums):
                    return rng.choice(BUILTIN)
                return rng.choice(bare) if (r < 0.8 and bare) or not sums else rng.choice(sums)
            r = rng.random()
            t = base()
            if r < 0.25:
                t = {"vector": t}
                if rng.random() < 0.15:
                    t = {"vector": t}
            if flags_ok and rng.random() < 0.3:
                if not have_mode:
                    fs.append({"name": "mode", "ty": "#"})
                    have_mode = True
                if rng.random() < 0.12:
                    t = "true"
                fs.append({"name": nm, "ty": t, "flag": {"field": "mode", "bit": rng.randint(0, 31)}})
            else:
                fs.append({"name": nm, "ty": t})
        return fs
    ndecl = rng.randint(1, 40)
    k = 0
    while len(types) + len(functions) - 1 < ndecl:
        k += 1
        r = rng.random()
        if r < 0.45:
            nm = "r%d.t%d" % (sid % 7, k)
            res = "r%d.T%d" % (sid % 7, k)
            fs = fields(6)
            while not fs:       # a single-constructor type without fields is a class of its own (probe below)
                fs = fields(6)
            types.append({"ctor": nm, "id": new_id(), "result": res, "fields": fs})
            bare.append(nm); results.append(res)
        elif r < 0.65:
            res = "r%d.S%d" % (sid % 7, k)
            for j in range(rng.randint(2, 5)):
                types.append({"ctor": "r%d.s%dAlt%d" % (sid % 7, k, j), "id": new_id(), "result": res, "fields": fields(4, sum_flags)})
            sums.append(res); results.append(res)
        else:
            if not results:
                continue
            functions.append({"ctor": "r%d.get%d" % (sid % 7, k), "id": new_id(), "result": rng.choice(results), "fields": fields(5)})
    if not functions:                              # the generated file imports packages only request methods use
        functions.append({"ctor": "r%d.ping" % (sid % 7), "id": new_id(), "result": "liteServer.Error", "fields": []})
    return {"types": types, "functions": functions}


PROBES = {
    # name: (.tl text, reported as violation?)  — shapes at the edge of the supported subset
    "flag-field-not-named-mode": ("liteServer.error#bba9e148 code:int message:string = liteServer.Error;\n"
                                  "p.a#0a0b0c0d flags:# x:flags.0?int y:flags.1?bytes = p.A;\n---functions---\np.f#01020304 = p.A;\n", True),
    "single-constructor-type-without-fields": ("liteServer.error#bba9e148 code:int message:string = liteServer.Error;\n"
                                               "p.nil#0a0b0c0d = p.Nil;\np.a#0a0b0c0e x:p.nil v:(vector p.nil) = p.A;\n---functions---\np.f#01020304 = p.A;\n", True),
    "forward-reference-to-bare-type": ("liteServer.error#bba9e148 code:int message:string = liteServer.Error;\n"
                                       "p.a#0a0b0c0d x:p.b = p.A;\np.b#0a0b0c0e y:int = p.B;\n---functions---\np.f#01020304 = p.A;\n", False),
    "boxed-reference-to-single-constructor-type": ("liteServer.error#bba9e148 code:int message:string = liteServer.Error;\n"
                                                   "p.b#0a0b0c0e y:int = p.B;\np.a#0a0b0c0d x:p.B = p.A;\n---functions---\np.f#01020304 = p.A;\n", False),
    "function-result-constructor-named-differently": ("liteServer.error#bba9e148 code:int message:string = liteServer.Error;\n"
                                                      "p.item#0a0b0c0e y:int = p.Thing;\n---functions---\np.f#01020304 = p.Thing;\n", False),
}


# ----------------------------------------------------------------------------------- scratch module
def go_names(ast):
    """TL name -> Go type name of the generated package (the bindings' convention)"""
    byres = {}
    for d in ast["types"]:
        byres.setdefault(d["result"], []).append(d)
    m = {}
    for d in ast["types"]:
        if len(byres[d["result"]]) == 1:
            m[d["ctor"]] = camel(d["ctor"]) + "C"
        else:
            m[d["result"]] = camel(d["result"])
    for d in ast["functions"]:
        m[d["ctor"]] = camel(d["ctor"]) + "Request"
    return m


def setup_module(ck):
    mod = os.path.join(ck.work, "mod")
    os.makedirs(os.path.join(mod, "internal"))
    open(os.path.join(mod, "go.mod"), "w").write(
        "module verifharness\n\ngo 1.19\n\nrequire github.com/tonkeeper/tongo v0.0.0\n\nreplace github.com/tonkeeper/tongo => %s\n" % vlib.REPO)
    shutil.copy(os.path.join(vlib.REPO, "go.sum"), mod)
    for pkg in ("ev", "tlval", "c09"):
        shutil.copytree(os.path.join(vlib.HARNESS, "internal", pkg), os.path.join(mod, "internal", pkg))
    p = vlib.sh(["go", "build", "-o", os.path.join(mod, "gen"), "./internal/c09/gen"], cwd=mod, env=vlib.GOENV, timeout=900, check=False)
    if p.returncode != 0:
        raise Infra("generator runner does not build against /repo:\n" + p.stdout[-3000:])
    # tlb/parser's integer templates (GenerateVarUintTypes, GenerateConstantInts, GenerateConstantBigInts, GenerateBitsTypes), run now
    ig = os.path.join(mod, "integers_generated.go")
    p = vlib.sh([os.path.join(mod, "gen"), "-builtin", ig], cwd=mod, env=vlib.GOENV, timeout=300, check=False)
    if p.returncode == 3:
        ck.report("C09:tlb:builtin-templates:panic", "the integer templates of tlb/parser panicked: " + p.stdout[-600:], {"kind": "builtin"})
        ig = os.path.join(vlib.REPO, "tlb", "integers.go")
    elif p.returncode != 0:
        raise Infra("gen -builtin failed:\n" + p.stdout[-2000:])
    json.dump({"Replace": {os.path.join(r_, "tlb", "integers.go"): ig for r_ in {os.path.abspath(vlib.REPO), os.path.realpath(vlib.REPO)}}},
              open(os.path.join(mod, "overlay.json"), "w"))
    return mod


def write_pkg(mod, sid, ast, tl_text):
    d = os.path.join(mod, "internal", "gen", "s%d" % sid)
    os.makedirs(d, exist_ok=True)
    open(os.path.join(d, "schema.tl"), "w").write(tl_text)
    dec = open(os.path.join(vlib.REPO, "liteclient", "decoder.go")).read()
    dec2 = re.sub(r"^package liteclient$", "package s%d" % sid, dec, count=1, flags=re.M)
    if dec2 == dec:
        raise Infra("cannot retarget liteclient/decoder.go")
    open(os.path.join(d, "decoder.go"), "w").write(dec2)
    names = go_names(ast)
    reg = ["// registration of the generated package with the driver runtime; Client / LiteServerErrorC.Error are the",
           "// companions liteclient provides by hand (client.go, extensions.go)", "package s%d" % sid, "",
           'import (\n\t"context"\n\t"reflect"\n\n\t"verifharness/internal/c09"\n)', "",
           "type Client struct{ h func([]byte) ([]byte, error) }", "",
           "func (c *Client) liteServerRequest(ctx context.Context, q []byte) ([]byte, error) { return c.h(q) }", "",
           "func (t LiteServerErrorC) Error() string { return t.Message }", "",
           "func init() {", "\tc09.Register(c09.Pkg{ID: %d, Types: map[string]reflect.Type{" % sid]
    for tl, go in sorted(names.items()):
        reg.append('\t\t"%s": reflect.TypeOf(%s{}),' % (tl, go))
    reg += ["\t}, NewClient: func(h func([]byte) ([]byte, error)) any { return &Client{h: h} }, Decode: LiteapiRequestDecoder})", "}", ""]
    open(os.path.join(d, "reg.go"), "w").write("\n".join(reg))
    return d


def run_generator(ck, mod, jobs, tag):
    jp, rp = os.path.join(mod, "jobs_%s.json" % tag), os.path.join(mod, "results_%s.json" % tag)
    json.dump(jobs, open(jp, "w"))
    p = vlib.sh([os.path.join(mod, "gen"), jp, rp], cwd=mod, env=vlib.GOENV, timeout=1800, check=False)
    if p.returncode != 0 or not os.path.exists(rp):
        raise Infra("generator runner failed:\n" + p.stdout[-3000:])
    return {r["id"]: r for r in json.load(open(rp))}


def build_batch(ck, mod, b, sids, prefix="s"):
    """one go build for the packages of a batch; returns (binary or None, {sid: compile errors})"""
    failed = {}
    sids = list(sids)
    b = "%s%d" % (prefix, b)
    for attempt in range(4):
        d = os.path.join(mod, "cmd", "drv%s" % b)
        os.makedirs(d, exist_ok=True)
        imports = "\n".join('\t_ "verifharness/internal/gen/%s%d"' % (prefix, s) for s in sids)
        open(os.path.join(d, "main.go"), "w").write(
            'package main\n\nimport (\n\t"verifharness/internal/c09"\n%s\n)\n\nfunc main() { c09.Main() }\n' % imports)
        out = os.path.join(mod, "drv%s" % b)
        # the TL-B drivers are compiled against the OUTPUT of the integer templates (setup_module), not the checked-in tlb/integers.go
        ov = ["-overlay", os.path.join(mod, "overlay.json")] if prefix == "b" else []
        p = vlib.sh(["go", "build", "-gcflags=-e"] + ov + ["-o", out, "./cmd/drv%s" % b], cwd=mod, env=vlib.GOENV, timeout=1800, check=False)
        if p.returncode == 0:
            return out, failed
        bad = {}
        for l in p.stdout.splitlines():
            m = re.match(r"^(?:\./)?internal/gen/%s(\d+)/(\w+\.go):(\d+):(\d+): (.*)$" % prefix, l.strip())
            if m:
                bad.setdefault(int(m.group(1)), []).append((m.group(2), int(m.group(3)), m.group(5)))
        if not bad:
            raise Infra("driver batch %s does not build and no generated package is to blame:\n%s" % (b, p.stdout[-3000:]))
        for sid, errs in bad.items():
            if all(f != "generated.go" for f, _, _ in errs):
                raise Infra("schema %d: only the harness's own files fail to compile (naming convention?): %s" % (sid, errs[:3]))
            failed[sid] = errs
        sids = [s for s in sids if s not in bad]
        if not sids:
            return None, failed
    raise Infra("driver batch %s still does not build after excluding failing packages" % b)


def klass(kinds):
    """shape class of a schema: its field kinds without the bit number, sorted, unique"""
    return "+".join(sorted({re.sub(r"^mode\.\d+\?", "mode?", k) for k in kinds}))


# ----------------------------------------------------------------------------------- the TL half
def run_tl(ck, mod):
    sys.path.insert(0, os.path.join(vlib.VERIF, "tools"))
    import tl2json
    ck.assumptions += ["TLC + CommunityModules Json; Prim converters and Crc32Ieee (JDK)", "tools/tl2json.py render(): AST -> .tl text",
                       "supported subset as exercised: declarations in dependency order, the flag field is called `mode`, constructor of a single-constructor "
                       "type = its result name with a lower-case initial, 8-digit ids, a liteServer.error declaration and at least one function per schema "
                       "(the emitted file header imports packages only request methods use); liteclient/decoder.go, a Client with liteServerRequest and "
                       "LiteServerErrorC.Error() are supplied next to the generated file as liteclient does",
                       "vector elements occupy at least one byte; byte strings < 2^24"]
    # ---- schemas: TLC shapes (S->C) and random larger ones (C->S)
    shapes = gen_shapes(ck)
    nrand = 60 if ck.thorough else 6
    schemas = {}                      # sid -> dict(ast, kinds, vecs?, origin)
    for s in shapes:
        schemas[s["schema"]] = {"ast": s["ast"], "kinds": s["kinds"] + ([SUMCOND] if s["sumctor_conditional"] else []), "vecs": s["vecs"], "origin": "shape"}
    RB = 10_000_000
    for i in range(nrand):
        sum_flags = i % 4 == 3      # conditional fields inside sum constructors: a class of its own (see TlShape_Gen!UnionFlags)
        ast = random_schema(ck.rng, i, sum_flags)
        has = sum_flags and any("flag" in f for d in ast["types"] for f in d["fields"] if sum(1 for e in ast["types"] if e["result"] == d["result"]) > 1)
        schemas[RB + i] = {"ast": ast, "kinds": ["random-schema"] + ([SUMCOND] if has else []), "origin": "random",
                           "decls": len(ast["types"]) + len(ast["functions"]) - 1}
    PB = 20_000_000
    probe_ids = {}
    for j, (name, (text, _)) in enumerate(sorted(PROBES.items())):
        schemas[PB + j] = {"ast": tl2json.parse(text), "kinds": ["probe:" + name], "origin": "probe", "text": text}
        probe_ids[PB + j] = name
    ck.extra["schemas"] = {"tlc_shapes": len(shapes), "random": nrand, "probes": len(PROBES),
                           "random_decl_counts": [schemas[RB + i]["decls"] for i in range(nrand)]}
    # the renderer and the independent parser must agree (AST -> text -> AST)
    for sid, s in schemas.items():
        s["text"] = s.get("text") or tl2json.render(s["ast"])
        back = tl2json.parse(s["text"])
        strip = lambda a: [[{k: v for k, v in d.items() if k != "line"} for d in a[sec]] for sec in ("types", "functions")]
        if strip(back) != strip(s["ast"]):
            raise Infra("schema %d does not survive render -> tl2json" % sid)
        s["dir"] = write_pkg(mod, sid, s["ast"], s["text"])
    # ---- generate (twice: determinism)
    jobs1 = [{"id": sid, "tl": os.path.join(s["dir"], "schema.tl"), "out": os.path.join(s["dir"], "generated.go"), "pkg": "s%d" % sid} for sid, s in schemas.items()]
    os.makedirs(os.path.join(mod, "gen2"))
    jobs2 = [dict(j, out=os.path.join(mod, "gen2", "s%d.go" % j["id"])) for j in jobs1]
    r1, r2 = vlib.parallel(lambda a: run_generator(ck, mod, a[0], a[1]), [(jobs1, "1"), (jobs2, "2")], n=2)
    probe_result = {}
    gen_failed = {}
    for sid, s in schemas.items():
        if r1[sid]["stage"] != "ok":
            gen_failed[sid] = r1[sid]
            shutil.rmtree(s["dir"])
            continue
        if r2[sid]["stage"] != "ok" or open(os.path.join(s["dir"], "generated.go")).read() != open(os.path.join(mod, "gen2", "s%d.go" % sid)).read():
            ck.report("C09:tl:nondeterministic:" + klass(s["kinds"]), "generating twice from schema %d gave different output" % sid,
                      {"kind": "schema", "tl": s["text"], "what": "determinism"})
    # ---- compile (one go build per batch of 200 packages)
    good = [sid for sid in schemas if sid not in gen_failed]
    batches = [good[i:i + 200] for i in range(0, len(good), 200)]
    built = vlib.parallel(lambda a: build_batch(ck, mod, a[0], a[1]), list(enumerate(batches)), n=2 if ck.thorough else 1)
    compile_failed = {}
    for (binp, failed) in built:
        compile_failed.update(failed)
    # ---- verdicts on "generates" / "compiles"
    # attribution: a kind that fails on its own explains the longer schemas containing it; conditional fields inside
    # the constructors of a sum are a class of their own when the same kinds are fine elsewhere
    single_fail = set()
    for sid in list(gen_failed) + list(compile_failed):
        s = schemas[sid]
        if s["origin"] == "shape" and len(s["kinds"]) == 1:
            single_fail.add(klass(s["kinds"]))
    def key_for(s, what):
        ks = {re.sub(r"^mode\.\d+\?", "mode?", k) for k in s["kinds"]}
        hit = sorted((ks - {SUMCOND}) & single_fail)
        if hit:
            return "C09:tl:%s:%s" % (what, "+".join(hit))
        if SUMCOND in ks:
            return "C09:tl:%s:%s" % (what, SUMCOND)
        return "C09:tl:%s:%s" % (what, klass(s["kinds"]))
    for sid, r in gen_failed.items():
        s = schemas[sid]
        msg = "tl/parser fails on schema %d (%s) at stage %s: %s" % (sid, ",".join(s["kinds"]), r["stage"], r["err"][:400])
        if s["origin"] == "probe":
            probe_result[probe_ids[sid]] = "generator error: " + r["err"][:300]
            if PROBES[probe_ids[sid]][1]:
                ck.report("C09:tl:compile:" + probe_ids[sid], msg, {"kind": "schema", "tl": s["text"], "what": "generate"})
        else:
            ck.report(key_for(s, "generate"), msg, {"kind": "schema", "tl": s["text"], "what": "generate"})
    for sid, errs in compile_failed.items():
        s = schemas[sid]
        msg = "generated code for schema %d (%s) does not compile: %s" % (sid, ",".join(s["kinds"]), "; ".join("%s:%d: %s" % e for e in errs[:3]))
        if s["origin"] == "probe":
            probe_result[probe_ids[sid]] = "does not compile: " + "; ".join("%s:%d: %s" % e for e in errs[:2])
            if PROBES[probe_ids[sid]][1]:
                ck.report("C09:tl:compile:" + probe_ids[sid], msg, {"kind": "schema", "tl": s["text"], "what": "compile"})
        else:
            ck.report(key_for(s, "compile"), msg, {"kind": "schema", "tl": s["text"], "what": "compile"})
    for sid, name in probe_ids.items():
        probe_result.setdefault(name, "generates and compiles")
    ck.extra["probes"] = probe_result
    ck.extra["compile"] = {"packages": len(schemas), "generator_errors": len(gen_failed), "compile_failures": len(compile_failed), "go_build_runs": len(batches)}
    if len(gen_failed) + len(compile_failed) > len(schemas) // 2:
        raise Infra("more than half of the schemas do not generate/compile: the harness's assumptions about tl/parser are off (%s)" % (
            list(gen_failed.values())[:1] + list(compile_failed.values())[:1]))
    # ---- execute: S->C replay of TLC vectors, C->S drive of the random schemas
    usable = {sid for sid in schemas if sid not in gen_failed and sid not in compile_failed}
    nvec = nmatch = 0
    traces = []
    for b, ((binp, _), sids) in enumerate(zip(built, batches)):
        if not binp:
            continue
        sh = [{"schema": sid, "ast": schemas[sid]["ast"], "vecs": schemas[sid]["vecs"]} for sid in sids if sid in usable and schemas[sid]["origin"] == "shape"]
        if sh:
            ip, op = os.path.join(ck.work, "shape_vectors_%d.ndjson" % b), os.path.join(ck.work, "shape_results_%d.ndjson" % b)
            vlib.write_ndjson(ip, sh)
            p = vlib.sh([binp, "-mode", "replay", "-in", ip, "-out", op], cwd=ck.work, env=vlib.GOENV, timeout=1800, check=False)
            if p.returncode != 0:
                raise Infra("C09 driver (replay) failed:\n" + p.stdout[-3000:])
            res = vlib.read_ndjson(op)
            want = sum(len(s["vecs"]) for s in sh)
            if res[-1].get("k") != "End" or res[-1]["events"] != want:
                raise Infra("C09 replay did not finish")
            for r_ in res[:-1]:
                nvec += 1
                if r_["match"]:
                    nmatch += 1
                    continue
                s = schemas[r_["schema"]]
                v = s["vecs"][r_["vec"]]
                # classes of their own: only the nil-slice form of an empty value is mis-encoded; a vector of family L (long)
                if r_.get("form") == "nil":
                    key = "C09:tl:codec:%s:empty-value-held-as-nil-slice" % r_["op"]
                elif TLBASE <= r_["schema"] < TLBASE + 12:
                    key = "C09:tl:codec:%s:long-vector" % r_["op"]
                elif TIBASE <= r_["schema"] < TIBASE + 4:
                    key = "C09:tl:codec:%s:non-contiguous-constructors" % r_["op"]
                elif r_["op"] == "Rej":
                    key = "C09:tl:codec:Rej:word-at-Bool-position"
                else:
                    key = key_for(s, "codec:" + r_["op"])
                ck.report(key,
                          "generated code disagrees with the schema on schema %d (%s): %s; vector %s" % (
                              r_["schema"], ",".join(s["kinds"]), json.dumps({k: r_[k] for k in r_ if k in ("why", "got_hex", "got_v")})[:600], json.dumps(v)[:800]),
                          {"kind": "vector", "tl": s["text"], "ast": s["ast"], "vector": v, "got": r_})
        rnd = [{"schema": sid, "ast": schemas[sid]["ast"]} for sid in sids if sid in usable and schemas[sid]["origin"] == "random"]
        if rnd:
            ip, tp = os.path.join(ck.work, "random_schemas_%d.ndjson" % b), os.path.join(ck.work, "trace_random_%d.ndjson" % b)
            vlib.write_ndjson(ip, rnd)
            p = vlib.sh([binp, "-mode", "drive", "-in", ip, "-out", tp, "-seed", str(ck.seed), "-per", "30" if ck.thorough else "12"],
                        cwd=ck.work, env=vlib.GOENV, timeout=1800, check=False)
            if p.returncode != 0:
                raise Infra("C09 driver (drive) failed:\n" + p.stdout[-3000:])
            traces.append(tp)
    ck.traces_ok += nmatch
    ck.evaluations += nvec
    ck.extra["vectors_replayed"] = nvec
    if not nvec or not traces:
        raise Infra("nothing was executed (vectors %d, traces %d)" % (nvec, len(traces)))
    ex = next(s for s in schemas.values() if s["origin"] == "shape" and len(s["kinds"]) > 1)
    ck.sample({"direction": "S->C", "schema": ex["text"], "vector": ex["vecs"][0]})
    # split the traces by segment into shards for parallel validation
    shard_files = split_trace(ck, traces, 16 if ck.thorough else 8)
    def val(tp):
        return ck.validate_segments("TlSem_Trace", "trace/TlSem_Trace.cfg", tp, timeout=2400, heap_gb=4, name="trace_" + os.path.basename(tp).split(".")[0])
    first_events = None
    for tp, (res, rejected) in zip(shard_files, vlib.parallel(val, shard_files, n=8)):
        if res.tuples("DOMAIN"):
            raise Infra("the harness produced a value outside the type's domain (%s)" % tp)
        for rj in rejected:
            e = rj["event"]
            ast = rj["segment"][0]["schema"]
            small = {k: (v if len(json.dumps(v)) < 3000 else json.dumps(v)[:3000] + "...") for k, v in e.items()}
            ck.report("C09:tl:random-schema:%s" % e.get("k"), "generated code of a random schema (%s) does something TlSem does not define: rejected %s\n%s" % (
                rj["segment"][0].get("note"), json.dumps(small)[:1200], tl2json.render(ast)[:1500]),
                {"kind": "trace", "tl": tl2json.render(ast), "ast": ast, "event": e})
    for tp in traces:
        for l in open(tp):
            if '"k":"Panic"' in l:
                e = json.loads(l)
                ck.report("C09:tl:panic:%s" % e.get("op"), "generated code panicked: " + l[:600], {"kind": "panic", "event": e})
    evs = vlib.read_ndjson(shard_files[0])
    ck.sample({"direction": "C->S", "schema": tl2json.render(evs[0]["schema"])[:600], "events": evs[1:3]})
    # ---- canaries
    body = [e for e in evs if e.get("k") != "End"]
    im = next(i for i, e in enumerate(body) if e["k"] == "Marshal" and len(e["hex"]) >= 8)
    c1 = copy.deepcopy(body[:im + 2]); c1[im]["hex"] = flip_hex(c1[im]["hex"])
    canary_trace(ck, "C->S marshal: one byte of a recorded encoding flipped", c1, im + 1)
    allb = [e for tp in shard_files for e in vlib.read_ndjson(tp) if e.get("k") != "End"]
    ic = next(i for i, e in enumerate(allb) if e["k"] == "Call" and e["err"] == "")
    seg0 = max(i for i in range(ic) if allb[i]["k"] == "Reset")
    c2 = copy.deepcopy([allb[seg0], allb[ic]]); c2[1]["payload"] = flip_hex(c2[1]["payload"])
    canary_trace(ck, "C->S call: one byte of the recorded request changed", c2, 2)
    s0 = next(s for sid, s in schemas.items() if sid in usable and s["origin"] == "shape")
    cv = copy.deepcopy(next(v for v in s0["vecs"] if v["op"] == "Enc" and len(v["hex"]) >= 8))
    cv["hex"] = flip_hex(cv["hex"])
    sid0 = next(sid for sid, s in schemas.items() if s is s0)
    b0 = next(i for i, sids in enumerate(batches) if sid0 in sids)
    cp, co = os.path.join(ck.work, "canary_vec.ndjson"), os.path.join(ck.work, "canary_out.ndjson")
    vlib.write_ndjson(cp, [{"schema": sid0, "ast": s0["ast"], "vecs": [cv]}])
    vlib.sh([built[b0][0], "-mode", "replay", "-in", cp, "-out", co], cwd=ck.work, env=vlib.GOENV, timeout=300)
    ck.canary("S->C: one byte of an expected encoding flipped", not vlib.read_ndjson(co)[0]["match"])
    # ---- family F: the bytes with the empty conditional field left out (TLC's `wrong`) are not an encoding of the value
    def run_vecs(sid, vecs, tag):
        bi = next(i for i, sids in enumerate(batches) if sid in sids)
        cp, co = os.path.join(ck.work, "canary_%s.ndjson" % tag), os.path.join(ck.work, "canary_%s_out.ndjson" % tag)
        vlib.write_ndjson(cp, [{"schema": sid, "ast": schemas[sid]["ast"], "vecs": vecs}])
        vlib.sh([built[bi][0], "-mode", "replay", "-in", cp, "-out", co], cwd=ck.work, env=vlib.GOENV, timeout=300)
        return [r_ for r_ in vlib.read_ndjson(co) if r_.get("k") != "End"]
    fs = [(sid, v) for sid in sorted(schemas) if TFBASE <= sid < TFBASE + 8 and sid in usable for v in schemas[sid]["vecs"] if "wrong" in v]
    if not fs:
        raise Infra("family F produced no vector with an empty conditional field")
    sidf, vf = fs[0]
    got = run_vecs(sidf, [dict(copy.deepcopy(vf), hex=vf["wrong"], vec=0)], "fwrong")
    ck.canary("S->C: expected bytes with the empty conditional field left out (schema %d)" % sidf, len(got) == 1 and not got[0]["match"])
    reset = {"k": "Reset", "schema": schemas[sidf]["ast"], "note": "schema %d" % sidf}
    mk = lambda hx: {"k": "Marshal", "ty": vf["ty"], "op": "Enc", "v": vf["v"], "hex": hx, "err": ""}
    p = os.path.join(ck.work, "canary_fwrong_trace.ndjson")
    vlib.write_ndjson(p, [reset, mk(vf["wrong"]), reset, mk(vf["hex"]), {"k": "End"}])
    st, tr, ok, evs_ = ck.states, ck.transitions, ck.traces_ok, ck.evaluations
    _, rej = ck.validate_segments("TlSem_Trace", "trace/TlSem_Trace.cfg", p, name="canary_fwrong")
    ck.states, ck.transitions, ck.traces_ok, ck.evaluations = st, tr, ok, evs_
    ck.canary("C->S marshal: recorded bytes with the empty conditional field left out (schema %d; the prescribed bytes pass)" % sidf,
              [r_["line"] for r_ in rej] == [2])
    # ---- family B: a refusal vector carrying bytes the schema does define must be reported (the driver really requires a refusal);
    # and TlSem_Trace must reject a recorded Unmarshal that accepted the bad word, and accept one that refused it
    bs = [(sid, v) for sid in sorted(schemas) if TBBASE <= sid < TBBASE + 3 and sid in usable for v in schemas[sid]["vecs"] if v["op"] == "Rej"]
    if not bs:
        raise Infra("family B produced no refusal vector")
    sidb, vb = bs[0]
    got = run_vecs(sidb, [dict(copy.deepcopy(vb), hex=vb["valid_hex"], vec=0)], "rejvalid")
    ck.canary("S->C: a refusal expected for bytes the schema defines (schema %d)" % sidb, len(got) == 1 and not got[0]["match"])
    resetb = {"k": "Reset", "schema": schemas[sidb]["ast"], "note": "schema %d" % sidb}
    p = os.path.join(ck.work, "canary_rej_trace.ndjson")
    vlib.write_ndjson(p, [resetb, {"k": "Unmarshal", "ty": vb["ty"], "op": "Enc", "hex": vb["hex"], "rest": 0, "err": "", "v": vb["v"]},
                          resetb, {"k": "Unmarshal", "ty": vb["ty"], "op": "Enc", "hex": vb["hex"], "rest": 0, "err": "other"}, {"k": "End"}])
    _, rej = ck.validate_segments("TlSem_Trace", "trace/TlSem_Trace.cfg", p, name="canary_rej")
    ck.states, ck.transitions, ck.traces_ok, ck.evaluations = st, tr, ok, evs_
    ck.canary("C->S unmarshal: a recorded decode that accepted a word that is neither boolTrue nor boolFalse (the refusing one passes)", [r_["line"] for r_ in rej] == [2])
    # ---- family L: a long vector that comes back one element short is not the value
    ls = [(sid, v) for sid in sorted(schemas) if TLBASE <= sid < TLBASE + 12 and sid in usable for v in schemas[sid]["vecs"][1:2]]
    if not ls:
        raise Infra("family L produced no usable schema")
    sidl, vl = ls[0]
    cv = copy.deepcopy(vl)
    fld = next(k_ for k_, x in cv["v"].items() if isinstance(x, list))
    cv["v"][fld] = cv["v"][fld][:-1]
    got = run_vecs(sidl, [dict(cv, vec=0)], "lshort")
    ck.canary("S->C: expected value of a long vector (%d elements) one element short (schema %d)" % (len(vl["v"][fld]), sidl), len(got) == 1 and not got[0]["match"])
    ck.extra["families"] = {"F": sum(1 for sid in schemas if TFBASE <= sid < TFBASE + 8), "L": sum(1 for sid in schemas if TLBASE <= sid < TLBASE + 12),
                            "L_lengths": sorted({len(x) for sid in schemas if TLBASE <= sid < TLBASE + 12 for v in schemas[sid]["vecs"] for x in v["v"].values() if isinstance(x, list)})}
    return nvec


# ----------------------------------------------------------------------------------- the TL-B half
RULE_TLB = ("TL-B half. TlbShape_Gen (TLC over TlbMini.tla) enumerates declaration shapes over {uintN intN bitsN (## N) Bool, Maybe T, Maybe ^T, "
            "Either L R (incl. X/^X), ^T, ^[anonymous], tagged / untagged records, $- and #-tagged unions, HashmapE with inline, referenced and record "
            "values}: every single-field shape and CRC-sampled sequences of 2..4, each in a schema Inner, NoTag, Alt, Hx, Main (tag cycling #8hex/#2hex/$bin/"
            "none/#3hex) and a 2..3-constructor union with rotations; values of every generated type with the cell TlbMini!Enc requires. The Either family "
            "(always all 96 schemas): (Either l r) for every l, r in {X, ^X, Y, ^Y} with (X, Y) = (Inner, uint16) and (uint8, Alt) -- same and different types, "
            "reference on the left only / right only / both / none -- as the only field, under Maybe, and between other fields (bits and a reference before, a "
            "reference and a bit after); their values take the left and the right side in turn (and `nothing` under Maybe; TLC refuses to emit a schema whose "
            "vectors miss a side). The unnamed-field family (always all 32 schemas): a field written without `name:` in every form the grammar allows -- ^X (record, "
            "builtin), ^[ ... ], plain X (record, union), (Maybe ^X), (Maybe X), (Either X ^X) -- alone, first, in the middle and last among named fields incl. "
            "references; same layout as a named field (an unnamed ^ is a reference to a new cell). The runner renders "
            ".tlb text, runs /repo's tlb/parser twice (identical output required), compiles the generated struct types (one go build per 200 packages) "
            "and the driver marshals each value with tlb.Marshal: cells are compared with the vector (S->C) and every call is judged by TlbMini_Trace "
            "(TlbMini!Matches: bit-exact, any HmLabel form; error iff the value does not fit a cell). Random larger TL-B schemas with Go-generated values "
            "go the same C->S way. The TL-B drivers are compiled with the output of tlb/parser's integer templates (GenerateVarUintTypes 1..33, GenerateConstantInts, "
            "GenerateConstantBigInts, GenerateBitsTypes) in the place of tlb/integers.go (go build -overlay); the VarUInteger family ((VarUInteger n), n = 1..33, "
            "values 0 / one byte / largest length / drawn; len field of ceil(log2 n) bits, shortest len) is always included, its `wrong` twin = the length field "
            "one bit wider (n a power of two); the (## n) family holds every n in 1..64 (eight per schema, each followed by the next and a Bool), its `wrong` twin = "
            "every width rounded up to the next machine word. Canaries of the Either family: TLC also emits, for a value of (Either ^X X), the cell with the reference on the other side "
            "(the declaration with the ^ exchanged); TlbMini!Matches must refuse it at generation time, the driver must report a mismatch when it is the "
            "expectation, and TlbMini_Trace must reject an event carrying it (left and right value each), while the prescribed cells pass; the same three judges "
            "must refuse the twin of an unnamed ^ field whose content is inline instead of in a new cell.")


def tlb_type_text(t):
    k = t["t"]
    if k in ("uint", "int", "bits"):
        return "%s%d" % (k, t["n"])
    if k == "nat":
        return "(## %d)" % t["n"]
    if k == "varuint":
        return "(VarUInteger %d)" % t["n"]
    if k == "bool":
        return "Bool"
    if k == "maybe":
        return "(Maybe %s)" % tlb_type_text(t["of"])
    if k == "either":
        return "(Either %s %s)" % (tlb_type_text(t["l"]), tlb_type_text(t["r"]))
    if k == "ref":
        return "^" + tlb_type_text(t["of"])
    if k == "anon":
        return "[ %s ]" % " ".join("%s:%s" % (f["name"], tlb_type_text(f["ty"])) for f in t["fields"])
    if k == "named":
        return t["name"]
    if k == "dict":
        return "(HashmapE %d %s)" % (t["n"], tlb_type_text(t["val"]))
    raise Infra("unknown TL-B type " + k)


def render_tlb(ast):
    out = []
    for d in ast["decls"]:
        # an unnamed field (TlbShape_Gen: anon |-> TRUE) is written without `name:`; its name is only the key of the value record
        fs = "".join(("%s " % tlb_type_text(f["ty"])) if f.get("anon") else "%s:%s " % (f["name"], tlb_type_text(f["ty"])) for f in d["fields"])
        out.append("%s%s %s= %s;" % (d["ctor"], d["tag"], fs, d["result"]))
    return "\n".join(out) + "\n"


def random_tlb_schema(rng, sid):
    """a larger random TL-B schema in dependency order over the supported constructs"""
    decls, records, unions = [], [], []
    def U(n): return {"t": "uint", "n": n}
    def base(depth=0):
        r = rng.random()
        if r < 0.30:
            return U(rng.choice([1, 2, 3, 4, 8, 13, 16, 22, 24, 32, 48, 64, 128, 256]))
        if r < 0.40:
            return {"t": "int", "n": rng.choice([8, 16, 32, 64, 128, 256, 257])}
        if r < 0.46:
            return {"t": "bits", "n": rng.choice([96, 128, 256])}
        if r < 0.52:
            return {"t": "nat", "n": rng.choice([1, 5, 10, 32])}
        if r < 0.57:
            return {"t": "bool"}
        if r < 0.80 and (records or unions):
            return {"t": "named", "name": rng.choice(records + unions)}
        return U(8)
    def ty():
        r = rng.random()
        b = base()
        if r < 0.55:
            return b
        if r < 0.65:
            return {"t": "maybe", "of": b}
        if r < 0.72:
            return {"t": "maybe", "of": {"t": "ref", "of": b}}
        if r < 0.80:
            return {"t": "either", "l": b, "r": {"t": "ref", "of": b}}
        if r < 0.88:
            return {"t": "ref", "of": b}
        return {"t": "dict", "n": rng.choice([8, 16, 32, 64, 256]), "val": rng.choice([b, {"t": "ref", "of": b}]) if b["t"] != "bool" else U(4)}
    def fields(maxn):
        fs, bits, refs = [], 40, 0
        for i in range(rng.randint(0, maxn)):
            t = ty()
            w = {"uint": t.get("n", 0), "int": t.get("n", 0), "bits": t.get("n", 0), "nat": t.get("n", 0)}.get(t["t"], 300 if t["t"] in ("named", "maybe", "either") else 1)
            r = 1 if t["t"] in ("ref", "dict", "maybe", "either") else (2 if t["t"] == "named" else 0)
            if bits + w > 900 or refs + r > 4:
                continue
            bits += w; refs += r
            fs.append({"name": "f%d" % (len(fs) + 1), "ty": t})
        return fs
    used = set()
    def tag(kind):
        while True:
            if kind == "#":
                t = "#" + "".join(rng.choice("0123456789abcdef") for _ in range(rng.choice([2, 4, 8])))
            else:
                t = "$" + "".join(rng.choice("01") for _ in range(rng.randint(1, 5)))
            if t not in used:
                used.add(t)
                return t
    n = rng.randint(2, 12)
    for k in range(n):
        if k == 0 or rng.random() < 0.35:
            name = "U%d" % k
            m = rng.randint(2, 4)
            kind = rng.choice("#$")
            if kind == "$":         # prefix-free binary tags of one length
                ln = max(2, (m - 1).bit_length())
                tags = ["$" + format(i, "0%db" % ln) for i in range(m)]
            else:
                tags = [tag("#") for _ in range(m)]
            for j in range(m):
                decls.append({"ctor": "u%d_%s" % (k, "abcd"[j]), "tag": tags[j], "result": name, "fields": fields(3)})
            unions.append(name)
        else:
            name = "R%d" % k
            decls.append({"ctor": "r%d" % k, "tag": rng.choice([tag("#"), tag("#"), ""]), "result": name, "fields": fields(4) or [{"name": "f1", "ty": U(8)}]})
            records.append(name)
    return {"decls": decls}


def write_tlb_pkg(mod, sid, ast, text):
    d = os.path.join(mod, "internal", "gen", "b%d" % sid)
    os.makedirs(d, exist_ok=True)
    open(os.path.join(d, "schema.tlb"), "w").write(text)
    names = []
    for dcl in ast["decls"]:
        if dcl["result"] not in names:
            names.append(dcl["result"])
    reg = ["package b%d" % sid, "", 'import (\n\t"reflect"\n\n\t"verifharness/internal/c09"\n)', "",
           "func init() {", "\tc09.RegisterTlb(c09.TlbPkg{ID: %d, Types: map[string]reflect.Type{" % sid]
    reg += ['\t\t"%s": reflect.TypeOf(%s{}),' % (n, n) for n in names]
    reg += ["\t}})", "}", ""]
    src = "\n".join(reg)
    open(os.path.join(d, "reg.go"), "w").write(src)
    return d


EBASE, ECOUNT = 9_000_000, 96     # TlbShape_Gen!EBase: the Either family — (Either l r), l, r in {X, ^X, Y, ^Y}, two type pairs, three contexts
VBASE, VCOUNT = 9_200_000, 33     # TlbShape_Gen!VBase: (VarUInteger n), n = 1..33, compiled against the output of the integer templates
NBASE, NCOUNT = 9_300_000, 8      # TlbShape_Gen!NBase: (## n) for every n in 1..64, eight per schema, each followed by the next and a Bool
ABASE, ACOUNT = 9_100_000, 32     # TlbShape_Gen!ABase: the unnamed-field family — 8 forms of a field without `name:` x alone / first / middle / last


def tlb_shape_numbers(ck):
    NA = 43
    either = [EBASE + e for e in range(ECOUNT)] + [ABASE + a for a in range(ACOUNT)] + [VBASE + i for i in range(VCOUNT)] + [NBASE + i for i in range(NCOUNT)]
    if ck.thorough:
        return list(range(NA)) + [NA + (ck.seed % 1000) * 5000 + i for i in range(1000 - NA)] + either
    return list(range(NA)) + [NA + (ck.seed % 1000) * 5000 + i for i in range(60 - NA)] + either


def gen_tlb_shapes(ck):
    ns = tlb_shape_numbers(ck)
    per = 40 if ck.thorough else 20
    shards = 16 if ck.thorough else 8
    def one(i):
        mine = ns[i::shards]
        cfg = "CONSTANTS\n  Seed = %d\n  Ns = {%s}\n  PerSchema = %d\nSPECIFICATION Spec\nINVARIANT Emit\nCHECK_DEADLOCK FALSE\n" % (
            ck.seed, ", ".join(map(str, mine)), per)
        p = os.path.join(ck.work, "TlbShape_Gen_%02d.cfg" % i)
        open(p, "w").write(cfg)
        res = ck.tlc_or_infra("TlbShape_Gen", os.path.relpath(p, vlib.SPEC), name="tlbshape%02d" % i, timeout=1800, heap_gb=3)
        v = res.vecs()
        if len(v) != len(mine):
            raise Infra("TlbShape_Gen shard %d emitted %d of %d schemas" % (i, len(v), len(mine)))
        return v
    out = [s for part in vlib.parallel(one, range(shards), n=8) for s in part]
    out.sort(key=lambda s: s["schema"])
    return out


def run_tlb(ck, mod):
    ck.assumptions += ["TL-B: TlbMini.tla transcribes the TL-B documentation for the listed constructs; a dictionary label may use any HmLabel form "
                       "(the declaration allows all three); values are kept within one cell's 1023 bits / 4 references or must be refused",
                       "TL-B subset as exercised: declarations in dependency order, bitsN only for the sizes tlb/integers.go provides, tags #hex / $bin without "
                       "the `_` completion form, no parametrised combinators"]
    shapes = gen_tlb_shapes(ck)
    nrand = 40 if ck.thorough else 6
    schemas = {}
    for s in shapes:
        schemas[s["schema"]] = {"ast": s["ast"], "kinds": s["kinds"], "vecs": s["vecs"], "origin": "shape"}
    RB = 10_000_000
    for i in range(nrand):
        schemas[RB + i] = {"ast": random_tlb_schema(ck.rng, i), "kinds": ["random-schema"], "origin": "random", "vecs": []}
    for sid, s in schemas.items():
        s["text"] = render_tlb(s["ast"])
        s["dir"] = write_tlb_pkg(mod, sid, s["ast"], s["text"])
    jobs1 = [{"kind": "tlb", "id": sid, "tl": os.path.join(s["dir"], "schema.tlb"), "out": os.path.join(s["dir"], "generated.go"), "pkg": "b%d" % sid} for sid, s in schemas.items()]
    os.makedirs(os.path.join(mod, "genb2"))
    jobs2 = [dict(j, out=os.path.join(mod, "genb2", "b%d.go" % j["id"])) for j in jobs1]
    r1, r2 = vlib.parallel(lambda a: run_generator(ck, mod, a[0], a[1]), [(jobs1, "b1"), (jobs2, "b2")], n=2)
    gen_failed = {}
    for sid, s in schemas.items():
        if r1[sid]["stage"] != "ok":
            gen_failed[sid] = r1[sid]
            shutil.rmtree(s["dir"])
        elif r2[sid]["stage"] != "ok" or open(os.path.join(s["dir"], "generated.go")).read() != open(os.path.join(mod, "genb2", "b%d.go" % sid)).read():
            ck.report("C09:tlb:nondeterministic:" + "+".join(sorted(set(s["kinds"]))), "generating twice from TL-B schema %d gave different output" % sid,
                      {"kind": "tlb-schema", "tlb": s["text"], "ast": s["ast"]})
    good = [sid for sid in schemas if sid not in gen_failed]
    batches = [good[i:i + 200] for i in range(0, len(good), 200)]
    built = vlib.parallel(lambda a: build_batch(ck, mod, a[0], a[1], "b"), list(enumerate(batches)), n=2 if ck.thorough else 1)
    compile_failed = {}
    for (_, failed) in built:
        compile_failed.update(failed)
    usable = {sid for sid in schemas if sid not in gen_failed and sid not in compile_failed}
    # ---- execute
    results, traces = {}, []
    for b, ((binp, _), sids) in enumerate(zip(built, batches)):
        if not binp:
            continue
        ip = os.path.join(ck.work, "tlb_in_%d.ndjson" % b)
        op, tp = os.path.join(ck.work, "tlb_results_%d.ndjson" % b), os.path.join(ck.work, "tlb_trace_%d.ndjson" % b)
        vlib.write_ndjson(ip, [{"schema": sid, "ast": schemas[sid]["ast"], "vecs": schemas[sid]["vecs"]} for sid in sids if sid in usable])
        p = vlib.sh([binp, "-mode", "tlb", "-in", ip, "-out", op, "-trace", tp, "-seed", str(ck.seed), "-per", "25" if ck.thorough else "10"],
                    cwd=ck.work, env=vlib.GOENV, timeout=1800, check=False)
        if p.returncode != 0:
            raise Infra("C09 driver (tlb) failed:\n" + p.stdout[-3000:])
        res = vlib.read_ndjson(op)
        if res[-1].get("k") != "End":
            raise Infra("C09 tlb run did not finish")
        for r_ in res[:-1]:
            results.setdefault(r_["schema"], []).append(r_)
        traces.append(tp)
    # ---- judge the traces (C->S), then attribute everything by shape class
    shard_files = split_trace(ck, traces, 16 if ck.thorough else 8)
    def val(tp):
        return ck.validate_segments("TlbMini_Trace", "trace/TlbMini_Trace.cfg", tp, timeout=2400, heap_gb=4, name="tlbtrace_" + os.path.basename(tp).split(".")[0][-2:])
    rejected_by_schema = {}
    for tp, (res, rejected) in zip(shard_files, vlib.parallel(val, shard_files, n=8)):
        if res.tuples("DOMAIN"):
            raise Infra("the harness produced a TL-B value outside the type's domain (%s)" % tp)
        for rj in rejected:
            sid = int(rj["segment"][0]["note"].split()[-1])
            rejected_by_schema[sid] = rj
    nvec = sum(len(v) for v in results.values())
    nmatch = sum(1 for v in results.values() for r_ in v if r_["match"])
    ck.traces_ok += nmatch
    ck.evaluations += nvec
    bad = {}   # sid -> (what, message, replay)
    for sid, r in gen_failed.items():
        bad[sid] = ("generate", "tlb/parser fails at stage %s: %s" % (r["stage"], r["err"][:300]), {"kind": "tlb-schema"})
    for sid, errs in compile_failed.items():
        bad[sid] = ("compile", "generated types do not compile: " + "; ".join("%s:%d: %s" % e for e in errs[:3]), {"kind": "tlb-schema"})
    for sid, rs in results.items():
        mis = [r_ for r_ in rs if not r_["match"]]
        if mis:
            v = schemas[sid]["vecs"][mis[0]["vec"]]
            bad[sid] = ("cell", "tlb.Marshal of the generated type differs from the declaration's encoding (%d of %d vectors): %s; vector %s" % (
                len(mis), len(rs), json.dumps({k: mis[0][k] for k in mis[0] if k in ("why", "got_cell")})[:500], json.dumps(v)[:700]),
                {"kind": "tlb-vector", "vector": v, "got": mis[0]})
    for sid, rj in rejected_by_schema.items():
        if sid not in bad:
            e = rj["event"]
            bad[sid] = ("cell", "recorded tlb.Marshal is not an encoding TlbMini accepts: %s" % json.dumps(e)[:1200], {"kind": "tlb-vector", "vector": {"ty": e["ty"], "v": e["v"], "vec": 0, "fits": True}, "event": e})
    strip = lambda ks: {k for k in ks}
    single_fail = {next(iter(strip(schemas[sid]["kinds"]))) for sid in bad if schemas[sid]["origin"] == "shape" and len(schemas[sid]["kinds"]) == 1}
    ck.extra["failing_single_kinds"] = sorted(single_fail)
    for sid, (what, msg, rp) in sorted(bad.items()):
        s = schemas[sid]
        hit = sorted(strip(s["kinds"]) & single_fail)
        key = "C09:tlb:%s:%s" % (what, "+".join(hit) if hit else "+".join(sorted(strip(s["kinds"]))))
        if hit and len(s["kinds"]) > 1:
            key = "C09:tlb:%s:%s" % (bad_what_of_kind(bad, schemas, hit[0]) or what, "+".join(hit))
        rp.update({"tlb": s["text"], "ast": s["ast"]})
        ck.report(key, "TL-B schema %d (%s): %s\n%s" % (sid, ",".join(s["kinds"]), msg, s["text"][:900]), rp)
    for tp in traces:
        for l in open(tp):
            if '"k":"Panic"' in l:
                e = json.loads(l)
                ck.report("C09:tlb:panic:%s" % e.get("ty"), "tlb.Marshal of a generated type panicked: " + l[:600], {"kind": "panic", "event": e})
    ck.extra["schemas"] = {"tlc_shapes": len(shapes), "random": nrand}
    ck.extra["compile"] = {"packages": len(schemas), "generator_errors": len(gen_failed), "compile_failures": len(compile_failed), "go_build_runs": len(batches)}
    ck.extra["vectors_with_expected_cell"] = nvec
    if len(gen_failed) + len(compile_failed) > len(schemas) // 2:
        raise Infra("more than half of the TL-B schemas do not generate/compile: the harness's assumptions about tlb/parser are off (%s)" % (
            list(gen_failed.values())[:1] + list(compile_failed.values())[:1]))
    if not nvec:
        raise Infra("no TL-B vector was executed")
    ex = next(s for s in schemas.values() if s["origin"] == "shape" and len(s["kinds"]) > 1)
    ck.sample({"direction": "TL-B S->C", "schema": ex["text"], "vector": next((v for v in ex["vecs"] if "cell" in v), ex["vecs"][0])})
    # ---- canaries
    evs = [e for tp in shard_files for e in vlib.read_ndjson(tp) if e.get("k") != "End"]
    c1 = None
    for j, e in enumerate(evs[:-1]):     # an event of a segment that was fully accepted
        n1 = evs[j + 1]
        if e["k"] == "Reset" and int(e["note"].split()[-1]) not in rejected_by_schema and n1["k"] == "TlbMarshal" and n1["err"] == "" and len(n1["cell"]["b"]) >= 8:
            c1 = copy.deepcopy([e, n1])
            break
    if c1 is None:
        raise Infra("no accepted TL-B event to build a canary from")
    b0 = c1[1]["cell"]["b"]
    c1[1]["cell"]["b"] = b0[:-1] + ("0" if b0[-1] == "1" else "1")
    p = os.path.join(ck.work, "canary_tlb.ndjson")
    vlib.write_ndjson(p, c1 + [{"k": "End"}])
    st, tr, ok, evn = ck.states, ck.transitions, ck.traces_ok, ck.evaluations
    _, rej = ck.validate_segments("TlbMini_Trace", "trace/TlbMini_Trace.cfg", p, name="canary")
    ck.states, ck.transitions, ck.traces_ok, ck.evaluations = st, tr, ok, evn
    ck.canary("TL-B C->S: last bit of a recorded cell flipped", len(rej) == 1 and rej[0]["line"] == 2)
    sidc = next(sid for sid in sorted(results) if sid in usable and all(r_["match"] for r_ in results[sid]) and any("cell" in v for v in schemas[sid]["vecs"]))
    cv = copy.deepcopy(next(v for v in schemas[sidc]["vecs"] if "cell" in v and len(v["cell"]["b"]) >= 2))
    cv["cell"]["b"] = cv["cell"]["b"][:-1] + ("0" if cv["cell"]["b"][-1] == "1" else "1")
    bi = next(i for i, sids in enumerate(batches) if sidc in sids)
    ip, op, tp = os.path.join(ck.work, "canary_tlb_in.ndjson"), os.path.join(ck.work, "canary_tlb_out.ndjson"), os.path.join(ck.work, "canary_tlb_tr.ndjson")
    vlib.write_ndjson(ip, [{"schema": sidc, "ast": schemas[sidc]["ast"], "vecs": [cv]}])
    vlib.sh([built[bi][0], "-mode", "tlb", "-in", ip, "-out", op, "-trace", tp], cwd=ck.work, env=vlib.GOENV, timeout=300)
    ck.canary("TL-B S->C: last bit of an expected cell flipped", not vlib.read_ndjson(op)[0]["match"])
    # ---- the two families: an expectation with the reference in the wrong place must be refused by both judges.
    # The wrong cell comes from TLC (TlbShape_Gen `wrong`: the same value under the declaration with the ^ of the two sides of the
    # Either exchanged / with the ^ of the unnamed field dropped, i.e. inline instead of referenced).
    def side_of(v):
        for x in v["v"].values():
            if isinstance(x, dict) and x.get("m") == "just":
                x = x["v"]
            if isinstance(x, dict) and "e" in x:
                return x["e"]
        return None
    def wrong_pair_either(sid):
        out = {}
        for v in schemas[sid]["vecs"]:
            if v["ty"] == "Main" and "wrong" in v and side_of(v) in ("l", "r"):
                out.setdefault(side_of(v), v)
        return [out[x] for x in ("l", "r")] if len(out) == 2 else None
    def wrong_pair_unnamed(sid):
        out = [v for v in schemas[sid]["vecs"] if v["ty"] == "Main" and "wrong" in v][:2]
        return out if len(out) == 2 else None
    fams = [("either", "the reference on the other side of the Either", EBASE, ECOUNT, [EBASE + 4, EBASE + 1], wrong_pair_either),
            ("unnamed", "the unnamed reference field inline instead of in a new cell", ABASE, ACOUNT, [ABASE + 2, ABASE + 10], wrong_pair_unnamed),
            ("varuint", "the length field of a VarUInteger one bit too wide", VBASE, VCOUNT, [VBASE + 15, VBASE + 3], wrong_pair_unnamed),
            ("nat", "every (## n) as wide as the next machine word", NBASE, NCOUNT, [NBASE + 2], wrong_pair_unnamed)]
    chosen = []        # (tag, what, schema, its two vectors)
    for tag, what, base, count, first, wrong_pair in fams:
        fam = [sid for sid in first + sorted(schemas) if base <= sid < base + count and sid in usable and sid in results
               and all(r_["match"] for r_ in results[sid]) and sid not in rejected_by_schema and wrong_pair(sid)]
        if fam:
            chosen.append((tag, what, fam[0], wrong_pair(fam[0])))
        elif bad:
            ck.notes.append("no %s-family schema passed on this (violating) run: its wrong-place canaries were not built" % tag)
        else:
            raise Infra("no %s-family schema to build the wrong-place canaries from" % tag)
    if chosen:
        # S->C: one driver run per batch binary, the wrong cells as expectations
        got = {}
        for bi in sorted({next(i for i, sids in enumerate(batches) if sidw in sids) for _, _, sidw, _ in chosen}):
            mine = [c for c in chosen if c[2] in batches[bi]]
            ip, op, tp = [os.path.join(ck.work, "canary_place_%d_%s.ndjson" % (bi, x)) for x in ("in", "out", "tr")]
            vlib.write_ndjson(ip, [{"schema": sidw, "ast": schemas[sidw]["ast"], "vecs": [dict(copy.deepcopy(v), cell=v["wrong"], vec=i) for i, v in enumerate(pair)]}
                                   for _, _, sidw, pair in mine])
            vlib.sh([built[bi][0], "-mode", "tlb", "-in", ip, "-out", op, "-trace", tp], cwd=ck.work, env=vlib.GOENV, timeout=300)
            for r_ in vlib.read_ndjson(op):
                if r_.get("k") != "End":
                    got.setdefault(r_["schema"], []).append(r_["match"])
        # C->S: one TlbMini_Trace run: per family two segments with the wrong cell (line 2 of each must be rejected), then the same
        # events with the prescribed cells as control (must be accepted: the canary is about the place, not the event's form)
        evw, want = [], []
        for field in ("wrong", "cell"):
            for _, _, sidw, pair in chosen:
                for v in pair:
                    evw += [{"k": "Reset", "schema": schemas[sidw]["ast"], "note": "schema %d" % sidw},
                            {"k": "TlbMarshal", "ty": v["ty"], "v": v["v"], "err": "", "cell": v[field]}]
                    if field == "wrong":
                        want.append((sidw, len(evw)))
        p = os.path.join(ck.work, "canary_place.ndjson")
        vlib.write_ndjson(p, evw + [{"k": "End"}])
        st, tr, ok, evn = ck.states, ck.transitions, ck.traces_ok, ck.evaluations
        _, rej = ck.validate_segments("TlbMini_Trace", "trace/TlbMini_Trace.cfg", p, name="canary_place")
        ck.states, ck.transitions, ck.traces_ok, ck.evaluations = st, tr, ok, evn
        lines = sorted(r_["line"] for r_ in rej)
        if any(l > want[-1][1] for l in lines):
            raise Infra("the control of the wrong-place canaries (prescribed cells) was rejected")
        for tag, what, sidw, pair in chosen:
            ck.canary("TL-B S->C: expected cells with %s (two values, schema %d)" % (what, sidw), got.get(sidw) == [False, False])
            ck.canary("TL-B C->S: recorded cells with %s (two values, schema %d)" % (what, sidw),
                      [l for l in lines if l in [w for s_, w in want if s_ == sidw]] == [w for s_, w in want if s_ == sidw])
            ck.extra["%s_family" % tag] = {"schemas": sum(1 for sid in schemas if dict((f[0], f[2]) for f in fams)[tag] <= sid < dict((f[0], f[2] + f[3]) for f in fams)[tag]),
                                           "canary_schema": next(l for l in schemas[sidw]["text"].splitlines() if l.startswith("main"))}


# ----------------------------------------------------------------------------------- generation is a function of its input
RULE_HIST = ("Generator histories (spec/GenHist.tla: one process = a state machine whose only action is Gen(call, out) with out = Pure[call] whatever the history). "
             "GenHist_Gen (TLC) enumerates every history of 2..MaxLen calls over calls <compiler>|<schema>|<options> -- tlb/parser with a default generator, with "
             "WithDefaultTypes(m, false) (m overrides default names and names a type the schema declares) and with WithDefaultTypes(m, true), incl. a schema of 14 "
             "declared types; tl/parser with the "
             "default and with a caller-supplied type table. The runner executes each history in a process of its own and each call alone in a fresh process "
             "(the reference, Pure), and once more alone (histories of one call); the output of a call is every exported result of the generator (GenerateGolangTypes "
             "and GetTlbTypes in the order returned; LoadTypes and LoadFunctions); GenHist_Trace accepts a recorded call iff its output (sha256 of all of it and "
             "the error) is the reference's.")
HIST_SCHEMAS = {
    "B1": "inner#a1 a:uint8 = Inner;\nmain#_ x:Grams y:Inner c:Coins b:Bool m:MsgAddress = Main;\n",
    "B2": "other#_ q:Bool v:(Maybe ^Cell) g:Grams = Other;\n",
    # 14 declared types: the order in which collected definitions are handed out (GetTlbTypes) shows when it is a map's
    "B3": "".join("k%d#%02x a:uint%d b:(Maybe ^Cell) = K%d;\n" % (i, 16 + i, 8 * (1 + i % 4), i) for i in range(13)) + "top#_ x:K0 y:K5 z:K12 g:Grams = Top;\n",
    "T1": ("liteServer.error#bba9e148 code:int message:string = liteServer.Error;\np.a#0a0b0c0d x:int y:long z:bytes = p.A;\n"
           "---functions---\np.f#01020304 = p.A;\n"),
}


def run_hist(ck, mod):
    calls = ["tlb|B1|default", "tlb|B1|over", "tlb|B1|replace", "tlb|B3|default", "tl|T1|default", "tl|T1|custom"]
    maxlen = 3
    if ck.thorough:
        calls += ["tlb|B2|default", "tlb|B2|over"]
        maxlen = 4
    cfg = "CONSTANTS\n  Calls = {%s}\n  MaxLen = %d\nSPECIFICATION Spec\nINVARIANT Emit\nCHECK_DEADLOCK FALSE\n" % (", ".join('"%s"' % c for c in calls), maxlen)
    p = os.path.join(ck.work, "GenHist_Gen.cfg")
    open(p, "w").write(cfg)
    res = ck.tlc_or_infra("GenHist_Gen", os.path.relpath(p, vlib.SPEC), name="genhist", timeout=900, heap_gb=3)
    hists = sorted(v["hist"] for v in res.vecs())
    want = sum(len(calls) ** n for n in range(1, maxlen + 1))
    if len(hists) != want or len({tuple(h) for h in hists}) != want:
        raise Infra("GenHist_Gen emitted %d histories, expected %d" % (len(hists), want))
    ip, tp = os.path.join(ck.work, "hist_in.json"), os.path.join(ck.work, "hist_trace.ndjson")
    json.dump({"schemas": HIST_SCHEMAS, "histories": hists}, open(ip, "w"))
    pr = vlib.sh([os.path.join(mod, "gen"), "-hist", ip, tp], cwd=mod, env=vlib.GOENV, timeout=1800, check=False)
    if pr.returncode != 0:
        raise Infra("generator runner (history mode) failed:\n" + pr.stdout[-3000:])
    evs = vlib.read_ndjson(tp)
    refs = {}
    for e in evs:
        if e.get("k") == "Reset":
            refs.update(e["ref"])
    if set(refs) != set(calls) or len({refs[c] for c in calls if c.startswith("tlb|B1|")}) != 3 or len({refs[c] for c in calls if c.startswith("tl|")}) != 2:
        raise Infra("history mode: the options do not produce different code for the same schema (the calls would not tell histories apart): %s" % refs)
    _, rejected = ck.validate_segments("GenHist_Trace", "trace/GenHist_Trace.cfg", tp, timeout=900, name="genhist_trace")
    told = []       # (compiler, options of the call, options used before it) already reported: longer histories containing them add nothing
    is_alone = lambda rj: rj["accepted"] == 1 or set(rj["segment"][0]["hist"][:rj["accepted"] - 1]) == {rj["event"]["call"]}
    # first the calls that differ with nothing but the same call before them (not a function at all), then the rest by history length
    for rj in sorted(rejected, key=lambda r: (not is_alone(r), len(r["segment"]))):
        e, h = rj["event"], rj["segment"][0]["hist"]
        comp, _, opt = e["call"].split("|")
        alone = is_alone(rj)
        before = [] if alone else sorted({c.split("|")[2] for c in h[:rj["accepted"] - 1] if c.split("|")[0] == comp} - {opt})
        if any(c_ == comp and o_ == opt and set(b_) <= set(before) for c_, o_, b_ in told):
            continue
        told.append((comp, opt, before))
        ck.report("C09:%s:nondeterministic-output:%s" % (comp, opt) if alone else "C09:%s:history:%s-after-%s" % (comp, opt, "+".join(before) or "other-compiler"),
                  "generation is not a function of its input: in the process history %s the call %s produced other code than the same call in a fresh process "
                  "(err %r / fresh %r)\n--- fresh process\n%s\n--- in this history\n%s" % (h, e["call"], e.get("err"), e.get("ref_err"), e.get("ref_text", "")[:700], e.get("text", "")[:700]),
                  {"kind": "history", "schemas": HIST_SCHEMAS, "hist": h, "call": e["call"]})
    ck.extra["histories"] = {"calls": calls, "max_len": maxlen, "histories": len(hists), "processes": len(hists) + len(calls)}
    ck.sample({"direction": "history", "hist": hists[len(hists) // 2], "ref": {c: refs[c][:16] for c in hists[len(hists) // 2]}})
    # canaries (one TlbMini-style run, two segments): the output of the last call of a recorded history changed; a default generator
    # answering with the code of the options used before it (what a leaking type table looks like)
    c = copy.deepcopy(evs[:1 + len(evs[0]["hist"])])
    c[-1]["out"] = flip_hex(c[-1]["out"])
    c2 = [{"k": "Reset", "ref": {"tlb|B1|default": refs["tlb|B1|default"], "tlb|B1|over": refs["tlb|B1|over"]}, "hist": ["tlb|B1|over", "tlb|B1|default"], "note": "canary"},
          {"k": "Gen", "call": "tlb|B1|over", "out": refs["tlb|B1|over"], "err": ""},
          {"k": "Gen", "call": "tlb|B1|default", "out": refs["tlb|B1|over"], "err": ""}]
    cp = os.path.join(ck.work, "canary_hist.ndjson")
    vlib.write_ndjson(cp, c + c2 + [{"k": "End"}])
    st, tr, ok, evn = ck.states, ck.transitions, ck.traces_ok, ck.evaluations
    _, rej = ck.validate_segments("GenHist_Trace", "trace/GenHist_Trace.cfg", cp, name="canary_hist")
    ck.states, ck.transitions, ck.traces_ok, ck.evaluations = st, tr, ok, evn
    lines = sorted(r_["line"] for r_ in rej)
    ck.canary("history: the output of the last call of a recorded history changed", len(c) in lines)
    ck.canary("history: a default generator answering with the code of the options used before it", len(c) + 3 in lines and len(lines) == 2)


def bad_what_of_kind(bad, schemas, kind):
    for sid, (what, _, _) in bad.items():
        if schemas[sid]["origin"] == "shape" and schemas[sid]["kinds"] == [kind]:
            return what
    return None


def split_trace(ck, traces, n):
    segs, cur = [], None
    for tp in traces:
        for l in open(tp):
            if l.startswith('{"k":"End"') or '"k":"End"' in l[:40]:
                continue
            if '"k":"Reset"' in l[:4000] and '"schema"' in l[:4000] and json.loads(l).get("k") == "Reset":
                cur = []
                segs.append(cur)
            if cur is None:
                raise Infra("trace %s does not start with Reset" % tp)
            cur.append(l)
    if not segs:
        raise Infra("no segments recorded")
    n = min(n, len(segs))
    files = []
    for i in range(n):
        p = os.path.join(ck.work, "trace_shard_%02d.ndjson" % i)
        with open(p, "w") as f:
            cnt = 0
            for sg in segs[i::n]:
                f.writelines(sg)
                cnt += len(sg)
            f.write(json.dumps({"k": "End", "events": cnt}) + "\n")
        files.append(p)
    return files


def canary_trace(ck, name, events, want_line):
    p = os.path.join(ck.work, "canary_%d.ndjson" % len(ck.canaries))
    vlib.write_ndjson(p, events + [{"k": "End"}])
    st, tr, ok, evs = ck.states, ck.transitions, ck.traces_ok, ck.evaluations
    _, rej = ck.validate_segments("TlSem_Trace", "trace/TlSem_Trace.cfg", p, name="canary")
    ck.states, ck.transitions, ck.traces_ok, ck.evaluations = st, tr, ok, evs
    ck.canary(name, len(rej) == 1 and rej[0]["line"] == want_line)


def flip_hex(h, pos=None):
    if not h:
        return "00"
    i = (len(h) // 2 // 2) * 2 if pos is None else pos
    return h[:i] + ("0" if h[i] != "0" else "1") + h[i + 1:]


def run(ck):
    mod = setup_module(ck)
    run_tl(ck, mod)
    tl_extra, ck.extra = ck.extra, {}
    run_tlb(ck, mod)
    tlb_extra, ck.extra = ck.extra, {}
    run_hist(ck, mod)
    ck.extra = {"tl": tl_extra, "tlb": tlb_extra, "history": ck.extra}
    return ck.finish(rule=RULE + " " + RULE_TLB + " " + RULE_HIST, distinct=ck.evaluations)


def replay(ck, path):
    """Re-run generator -> compile -> execute for the schema stored in a replay file."""
    sys.path.insert(0, os.path.join(vlib.VERIF, "tools"))
    import tl2json
    rp = json.load(open(path))["replay"]
    mod = setup_module(ck)
    if rp["kind"].startswith("tlb-"):
        return replay_tlb(ck, mod, rp, path)
    if rp["kind"] == "history":
        ip, tp = os.path.join(ck.work, "hist_in.json"), os.path.join(ck.work, "hist_trace.ndjson")
        json.dump({"schemas": rp["schemas"], "histories": [rp["hist"]]}, open(ip, "w"))
        vlib.sh([os.path.join(mod, "gen"), "-hist", ip, tp], cwd=mod, env=vlib.GOENV, timeout=600)
        _, rej = ck.validate_segments("GenHist_Trace", "trace/GenHist_Trace.cfg", tp, name="replay")
        for rj in rej:
            print("rejected:", json.dumps({k_: v_ for k_, v_ in rj["event"].items() if k_ not in ("text", "ref_text")}))
        if rej:
            print("VIOLATION property=C09 replay=%s" % path)
            return 1
        return 0
    text = rp.get("tl")
    if not text:
        raise Infra("replay file carries no schema")
    ast = rp.get("ast") or tl2json.parse(text)
    d = write_pkg(mod, 1, ast, text)
    r = run_generator(ck, mod, [{"id": 1, "tl": os.path.join(d, "schema.tl"), "out": os.path.join(d, "generated.go"), "pkg": "s1"}], "r")[1]
    print("generator:", json.dumps(r))
    bad = r["stage"] != "ok"
    if not bad:
        r2 = run_generator(ck, mod, [{"id": 1, "tl": os.path.join(d, "schema.tl"), "out": os.path.join(mod, "again.go"), "pkg": "s1"}], "r2")[1]
        if r2["stage"] != "ok" or open(os.path.join(d, "generated.go")).read() != open(os.path.join(mod, "again.go")).read():
            print("second generation differs")
            bad = True
        binp, failed = build_batch(ck, mod, 0, [1])
        if failed:
            print("compile:", failed[1][:5])
            bad = True
        elif rp["kind"] == "vector":
            ip, op = os.path.join(ck.work, "v.ndjson"), os.path.join(ck.work, "o.ndjson")
            vlib.write_ndjson(ip, [{"schema": 1, "ast": ast, "vecs": [rp["vector"]]}])
            vlib.sh([binp, "-mode", "replay", "-in", ip, "-out", op], cwd=ck.work, env=vlib.GOENV, timeout=300)
            res = vlib.read_ndjson(op)[0]
            print(json.dumps(res)[:3000])
            bad = not res["match"]
        elif rp["kind"] in ("trace", "panic"):
            ip, tp = os.path.join(ck.work, "s.ndjson"), os.path.join(ck.work, "t.ndjson")
            vlib.write_ndjson(ip, [{"schema": 1, "ast": ast}])
            vlib.sh([binp, "-mode", "drive", "-in", ip, "-out", tp, "-seed", str(ck.seed), "-per", "30"], cwd=ck.work, env=vlib.GOENV, timeout=600)
            _, rej = ck.validate_segments("TlSem_Trace", "trace/TlSem_Trace.cfg", tp, name="replay")
            for rj in rej:
                print("rejected:", json.dumps(rj["event"])[:2000])
            bad = bool(rej) or any('"k":"Panic"' in l for l in open(tp))
    if bad:
        print("VIOLATION property=C09 replay=%s" % path)
        return 1
    return 0


def replay_tlb(ck, mod, rp, path):
    ast, text = rp["ast"], rp["tlb"]
    d = write_tlb_pkg(mod, 1, ast, text)
    job = {"kind": "tlb", "id": 1, "tl": os.path.join(d, "schema.tlb"), "out": os.path.join(d, "generated.go"), "pkg": "b1"}
    r = run_generator(ck, mod, [job], "r")[1]
    print("generator:", json.dumps(r))
    bad = r["stage"] != "ok"
    if not bad:
        r2 = run_generator(ck, mod, [dict(job, out=os.path.join(mod, "again.go"))], "r2")[1]
        if r2["stage"] != "ok" or open(os.path.join(d, "generated.go")).read() != open(os.path.join(mod, "again.go")).read():
            print("second generation differs")
            bad = True
        binp, failed = build_batch(ck, mod, 0, [1], "b")
        if failed:
            print("compile:", failed[1][:5])
            bad = True
        else:
            vecs = [rp["vector"]] if rp["kind"] == "tlb-vector" else []
            ip, op, tp = os.path.join(ck.work, "v.ndjson"), os.path.join(ck.work, "o.ndjson"), os.path.join(ck.work, "t.ndjson")
            vlib.write_ndjson(ip, [{"schema": 1, "ast": ast, "vecs": vecs}])
            vlib.sh([binp, "-mode", "tlb", "-in", ip, "-out", op, "-trace", tp, "-seed", str(ck.seed), "-per", "20"], cwd=ck.work, env=vlib.GOENV, timeout=600)
            for r_ in vlib.read_ndjson(op)[:-1]:
                print(json.dumps(r_)[:2000])
                bad = bad or not r_["match"]
            _, rej = ck.validate_segments("TlbMini_Trace", "trace/TlbMini_Trace.cfg", tp, name="replay")
            for rj in rej:
                print("rejected:", json.dumps(rj["event"])[:2000])
            bad = bad or bool(rej) or any('"k":"Panic"' in l for l in open(tp))
    if bad:
        print("VIOLATION property=C09 replay=%s" % path)
        return 1
    return 0
