# C15: wallet address and send parameters follow from key, version and chain state (spec/WalletSend.tla).
import json, os, copy, collections, threading
import vlib
from vlib import Infra, log

RULE = ("Addresses (C->S): every address / state-init yielded by wallet.New(...).GetAddress, Wallet.StateInit, GenerateWalletAddress, "
        "GenerateStateInit (12 versions x workchains {unset,0,-1,1,-128,127} x sub-wallet ids x network ids (mainnet, testnet, small, > 16 and > 24 bits of both signs, pairs equal modulo 2^8 / 2^16 / 2^24) x seeded keys) and "
        "DefaultWalletFromSeed is accepted by WalletSend_Trace only if it equals Cells!ReprHash of the StateInit cell built in TLA+ from "
        "the published code (bags parsed by Boc!Parse, root hashes pinned to the published code hashes) and the version's documented "
        "initial data; one Distinct judgement over all recorded addresses requires different inputs -> different addresses (over the inputs a version takes; versions "
        "without a wallet: observation only). Send pipeline (S->C): TLC enumerates every history of WalletSend (7 sending "
        "versions x SendV2/Send/RawSendV2/RawSend x with/without confirmation x account none/uninit/frozen/error/active(seqno 0,1,7,"
        "2^32-1, and one with a non-empty extension dictionary) x send ok/error x poll answers error/unchanged/lower/advanced, <= 6 polls then the "
        "deadline; lower answers: full product in the thorough tier, once per history at every position in the quick tier); each history is replayed against the real entry point with a scripted blockchain interface (account data cells "
        "written by the specification); the recorded run (the sent bag decoded in TLA+: src, dest, init, body seqno; polls with clock "
        "readings; result) is accepted only if it is a behaviour of WalletSend!Step and gives the outcome the history requires. "
        "distinct = distinct histories replayed + distinct (api, version, key, workchain, sub-wallet, network) address inputs.")

CFG = "trace/WalletSend_Trace.cfg"
MOD = "WalletSend_Trace"
SEND_VERSIONS = ["V3R1", "V3R2", "V4R1", "V4R2", "V5Beta", "V5R1", "HighLoadV2R2"]
CONFIRM_WHY = ("ok-without-advance", "error-before-deadline", "error-after-advance", "long-after-deadline")


def family(ver):
    return {"V1": "v1v2", "V2": "v1v2", "V3": "v3", "V4": "v4"}.get(ver[:2]) or {"V5Beta": "v5beta", "V5R1": "v5r1"}.get(ver, "hl2")


# ---------------------------------------------------------------------------------------------- helpers
def strip_end(src, dst):
    with open(dst, "w") as f:
        for l in open(src):
            if '"k":"End"' not in l:
                f.write(l)
    return dst


def judge(ck, events, name, codes, timeout=1500, count=True):
    """Write events (+End) to a file, run the trace spec, return (rejected lines, notes by line).
    count=False: the run does not count towards the evidence (canaries, re-runs); the other thread may be
    counting at the same time, so what this call added is taken off again rather than restoring a snapshot."""
    p = os.path.join(ck.work, name + ".ndjson")
    vlib.write_ndjson(p, events + [{"k": "End", "events": len(events)}])
    res, rej = ck.validate_events(MOD, CFG, p, timeout=timeout, name=name, heap_gb=4, extra_files={"codes.ndjson": codes})
    if not count:
        ck.states -= res.distinct
        ck.transitions -= res.generated
        ck.traces_ok -= len(events) - len(rej)
        ck.evaluations -= len(events)
    notes = collections.defaultdict(list)
    for t in res.notes:
        notes[t[1]].append(t[2:])
    return rej, notes


def quiet_judge(ck, events, name, codes):
    return judge(ck, events, name, codes, count=False)


def first_note(notes, line, kind):
    for n in notes.get(line, []):
        if n and n[0] == kind:
            return n[1]
    return "?"


# ------------------------------------------------------------------------------------- send pipeline
def gen_vectors(ck, codes, seeds, wcs, rot, nrot=2):
    pp = os.path.join(ck.work, "params_%d.ndjson" % rot)
    # the account-state entry points get the full grid in both tiers; the caller-supplied seqnos of RawSend(V2) are thinned
    # and their poll scripts bounded by 4 in the quick tier
    rawseqs = ["0", "1", "7", "4294967295"] if ck.thorough else ["7", "4294967295"]
    vlib.write_ndjson(pp, [{"seeds": seeds, "nrot": nrot, "wcs": wcs, "maxpolls": 6, "rawmaxpolls": 6 if ck.thorough else 4, "rawseqs": rawseqs,
                           "lowermode": "full" if (ck.thorough and rot == 0) else "sparse", "rot": rot}])
    res = ck.tlc_or_infra("WalletSend_Gen", "gen/WalletSend_Gen.cfg", files={"params.ndjson": pp, "codes.ndjson": codes},
                          workers=4, timeout=1200, name="gen_rot%d" % rot, heap_gb=4)
    # TLC's workers print in any order: sort the texts so that vector numbers are reproducible
    texts = sorted(t[1] for t in res.tuples("VEC") if len(t) >= 2 and isinstance(t[1], str))
    return [json.loads(t) for t in texts], res


def check_generator(vs):
    """The generator's own claims (vacuity): exit 2 if they fail."""
    if len(vs) < 9000:
        raise Infra("generator produced only %d histories" % len(vs))
    seen = collections.Counter()
    for v in vs:
        seen[("ver", v["ver"])] += 1
        seen[("entry", v["entry"], v["confirm"])] += 1
        seen[("st", v["acct"]["st"], v["acct"]["n"], v["acct"]["ext"])] += 1
        seen[("send", v["send"])] += 1
        if v["exp"]["advanced"]:
            seen[("adv-at", v["exp"]["npolls"])] += 1
        for i, p in enumerate(v["polls"]):
            if p["r"] == "val" and v["exp"]["seq"] != "" and int(p["v"]) < int(v["exp"]["seq"]):
                seen[("lower-at", i + 1)] += 1
                if v["exp"]["advanced"]:
                    seen[("lower-before-advance",)] += 1
        if v["confirm"] and v["send"] == "ok" and not v["exp"]["advanced"] and not v["exp"]["freeconfirm"]:
            seen[("deadline-after", len(v["polls"]))] += 1
    need = [("ver", x) for x in SEND_VERSIONS] + [("adv-at", k) for k in range(1, 7)] + [("lower-at", k) for k in range(1, 7)] + [("lower-before-advance",)] + [("deadline-after", k) for k in range(0, 7)]
    need += [("st", s, "", False) for s in ("none", "uninit", "frozen", "err")] + [("st", "active", n, False) for n in ("0", "1", "7", "4294967295")]
    need += [("st", "active", "7", True), ("send", "ok"), ("send", "err"), ("entry", "SendV2", True), ("entry", "SendV2", False),
             ("entry", "Send", False), ("entry", "RawSendV2", True), ("entry", "RawSendV2", False), ("entry", "RawSend", False)]
    script = lambda v: "".join("E" if p["r"] == "err" else "=" if p["v"] == v["same"] else "<" if int(p["v"]) < int(v["same"]) else "+" for p in v["polls"])
    for v in vs:
        if v["confirm"] and v["exp"]["advanced"] and v["exp"]["res"] == "ok":
            seen[("script", script(v))] += 1
        if v["acct"]["st"] == "active" and v["entry"] == "Send":
            seen[("active-key", v["ver"], v["seed"][65:] or "real")] += 1
    need += [("script", x) for x in ("E+", "=EE+", "EEEEE+", "=+")]
    need += [("active-key", x, pat * 32) for x in SEND_VERSIONS for pat in ("ff", "00", "80", "7f")]
    need += [("active-key", x, "00" * 26 + "80" + "00" * 5) for x in SEND_VERSIONS]
    miss = [n for n in need if not seen[n]]
    if any(seen[("active-key", x, "real")] < 14 * 5 for x in SEND_VERSIONS):
        raise Infra("generator: fewer than 14 seeded keys per version for active accounts")
    if miss:
        raise Infra("generator does not cover: %s" % miss)
    # the required outcome of a confirmed send: success iff a scripted poll advanced
    for v in vs:
        e = v["exp"]
        if v["confirm"] and v["send"] == "ok" and not e["freeconfirm"] and v["acct"]["st"] != "err":
            adv = any(p["r"] == "val" and int(p["v"]) > int(e["seq"]) for p in v["polls"])
            if (e["res"] == "ok") != adv:
                raise Infra("specification: history requires %s but advanced=%s: %s" % (e["res"], adv, json.dumps(v)[:400]))


def replay_vectors(ck, vecs, name, par):
    vp, rp = os.path.join(ck.work, name + ".ndjson"), os.path.join(ck.work, name + "_runs.ndjson")
    vlib.write_ndjson(vp, vecs)
    ck.run_vh(["replay", "C15", "-in", vp, "-out", rp, "-part", par], timeout=3000)
    res = vlib.read_ndjson(rp)
    if not res or res[-1].get("k") != "End" or res[-1]["events"] != len(vecs):
        raise Infra("replay did not finish")
    runs = res[:-1]
    for r_ in runs:
        if r_.get("setup"):
            raise Infra("replay setup failed for vector %s: %s" % (r_.get("vec"), r_["setup"]))
    return runs


def run_facts(r_):
    steps = r_["steps"]
    last = steps[-1] if steps else {"k": "none"}
    polls = [s for s in steps if s["k"] == "Poll"]
    return {"sent": any(s["k"] == "Send" for s in steps), "res": last.get("res", last["k"]), "npolls": len(polls), "last": last}


def run_key(r_, why):
    f = run_facts(r_)
    if why in ("Poll:after-advance", "Return:error-after-advance"):
        # history class: the seqno advanced at a poll before the deadline ...
        if f["res"] == "err":
            return "C15:confirm:err==nil-continue"          # ... and the call still reports the timeout
        return "C15:confirm:polled-after-advance"            # ... and the call went on polling
    if why.startswith("Return:") and why[7:] in CONFIRM_WHY:
        return "C15:confirm:" + why[7:]
    if why == "GetAddress":
        return "C15:send:GetAddress:" + family(r_["ver"])    # the wallet object reports another address than the specification derives
    cls = r_["st"] if r_["entry"] in ("SendV2", "Send") else "caller-params"
    if r_.get("prior"):
        cls += ":after-earlier-sends-on-the-same-wallet-value"
    if why.split(":")[0] in ("Build", "Send", "Return"):
        return "C15:send:%s:%s:%s" % (why, family(r_["ver"]), cls)
    return "C15:send:%s:%s" % (why, r_["entry"])            # Panic, Timeout, no-return, order of calls


def outcome_differs(r_):
    """An accepted run whose outcome is not the one the history requires (possible only through timing)."""
    e, f = r_["exp"], run_facts(r_)
    if e["free"] or e["freeconfirm"]:
        return False
    return f["sent"] != e["sent"] or f["res"] != e["res"] or (e["advanced"] and f["npolls"] != e["npolls"])


def slim_run(r_):
    r2 = copy.deepcopy(r_)
    for s in r2["steps"]:
        if s["k"] == "Send" and len(s.get("boc", "")) > 400:
            s["boc"] = s["boc"][:400] + "..."
    return r2


def window_ms(ck):
    """Confirmation window. The wallet polls every window/10; on an oversubscribed machine the loop is slowed down, so the
    window grows with the load (at most x3) to keep the scripted polls before the deadline."""
    base = 400 if ck.thorough else 300
    try:
        load = os.getloadavg()[0] / vlib.NCPU
    except OSError:
        load = 0
    return int(base * min(3.0, max(1.0, load / 1.5)))


def one_rotation(ck, codes, seeds, wcs, rot, W, first_vec, out, nrot):
    """Generate, replay and judge the histories of one key / workchain assignment. Returns (vectors, accepted runs, rejected (run, why))."""
    vs, res = gen_vectors(ck, codes, seeds, wcs, rot, nrot)
    check_generator(vs)
    # histories of ONE wallet value: every fifth history once more after 1..3 earlier sends through the same value (a send has no
    # memory in the statement: seqno and init follow from the chain state of THIS send)
    vs = vs + [dict(copy.deepcopy(v), prior=1 + (k // 5) % 3) for k, v in enumerate(vs) if k % 5 == 0 and v["acct"]["st"] != "err"]
    for i, v in enumerate(vs):
        v["W"], v["rot"], v["vec"] = W, rot, first_vec + i
        v.setdefault("prior", 0)
    out.setdefault("gen_states", res.distinct)
    out.setdefault("rerun_for_timing", 0)
    runs = replay_vectors(ck, vs, "vectors_rot%d" % rot, 768)
    nsh = 8 if ck.thorough else 5
    shards = [runs[i::nsh] for i in range(nsh)]
    results = vlib.parallel(lambda i: judge(ck, shards[i], "runs_r%d_%02d" % (rot, i), codes, timeout=2500), range(nsh), n=nsh)
    rejected, accepted = [], []
    for sh, (rej, notes) in zip(shards, results):
        bad = {r_["line"]: first_note(notes, r_["line"], "run") for r_ in rej}
        for i, r_ in enumerate(sh):
            if i + 1 in bad:
                rejected.append((r_, bad[i + 1]))
            else:
                accepted.append(r_)
    # Time-dependent judgements are made twice before they count (DESIGN section 6). Replayed again with a 3x window, a few at a time:
    #  - accepted behaviours whose outcome is not the history's (the scripted poll was not reached before the deadline under load)
    #  - runs rejected only for a clock reading (an error slightly early / very late on an oversubscribed machine)
    def clock_suspect(r_, why):
        """rejected only for a clock reading that scheduling noise can explain (never: an error far from the deadline)"""
        last = r_["steps"][-1]
        if last["k"] == "Timeout" or why == "Return:long-after-deadline":        # (Timeout: the harness gave up waiting)
            return True
        return why == "Return:error-before-deadline" and last.get("us", 0) >= r_["W"] * 600     # within 40% of the deadline
    firm = lambda: [x for x in rejected if not clock_suspect(*x)]
    for attempt, (mult, par) in enumerate(((3, 48), (6, 16), (12, 8))):
        again = [r_ for r_ in accepted if outcome_differs(r_)]
        suspects = [r_ for r_, why in rejected if clock_suspect(r_, why)]
        if not again and not suspects:
            break
        if len(again) + len(suspects) > len(vs) // 8:
            # not noise any more. Misbehaviour of the code must not be masked by this guard: if there are firm rejections they
            # are reported (the clock-dependent ones stay rejected and pass through the reproduction guard of their key);
            # only with nothing firm to report is this an infrastructure failure
            if firm() or suspects:
                ck.notes.append("%d runs with clock-dependent judgements were not replayed again (too many to be scheduling noise)" % (len(again) + len(suspects)))
                accepted = [r_ for r_ in accepted if not outcome_differs(r_)]
                ck.traces_ok -= len(again)
                break
            raise Infra("%d runs depend on clock readings that differ from what their history requires (machine too loaded?)" % (len(again) + len(suspects)))
        out["rerun_for_timing"] = out.get("rerun_for_timing", 0) + len(again) + len(suspects)
        gone = {r_["vec"] for r_ in again + suspects}
        ck.traces_ok -= len(again)
        accepted = [r_ for r_ in accepted if r_["vec"] not in gone]
        rejected = [(r_, why) for r_, why in rejected if r_["vec"] not in gone]
        v2 = [dict(vs[r_["vec"] - first_vec], W=mult * W) for r_ in again + suspects]
        runs2 = replay_vectors(ck, v2, "vectors_again%d_rot%d" % (attempt, rot), par)
        rej2, notes2 = quiet_judge(ck, runs2, "runs_again%d_rot%d" % (attempt, rot), codes)
        bad2 = {r_["line"]: first_note(notes2, r_["line"], "run") for r_ in rej2}
        for i, r_ in enumerate(runs2):
            if i + 1 in bad2:
                rejected.append((r_, bad2[i + 1]))
            else:
                accepted.append(r_)
                ck.traces_ok += 1
    for r_ in accepted:
        if outcome_differs(r_) and not rejected:
            raise Infra("vector %d: the run is a legal behaviour but four times not the outcome the history requires: %s" % (r_["vec"], json.dumps(slim_run(r_))[:1500]))
    out.setdefault("runs", runs)          # rotation 0, for the canaries
    return vs, accepted, rejected


def send_part(ck, codes, out):
    rots = [0, 1, 2] if ck.thorough else [0]
    W = window_ms(ck)
    # keys: nrot seeded ones rotate over (version, entry); entry Send runs every account state with all of them: 12 more seeded
    # keys and private-key values whose public half is a pattern (every byte's top bit in both values: the stored data of an
    # active account must decode whatever the key bytes are)
    nrot = 4 if ck.thorough else 2
    seeds = ["%064x" % ck.rng.getrandbits(256) for _ in range(nrot + 12)]
    seeds += ["%064x:%s" % (ck.rng.getrandbits(256), pat * 32) for pat in ("ff", "00", "80", "7f")]
    seeds += ["%064x:%s" % (ck.rng.getrandbits(256), "00" * i + "80" + "00" * (31 - i)) for i in ((26, 0, 31) if not ck.thorough else range(32))]
    wcs = [0, -1, 1, -128, 127] if ck.thorough else [0, -1]
    nvec = nacc = nrej = 0
    by_key = collections.OrderedDict()        # key -> [count, vector, run, why]
    for rot in rots:
        vs, accepted, rejected = one_rotation(ck, codes, seeds, wcs, rot, W, nvec, out, nrot)
        nvec, nacc, nrej = nvec + len(vs), nacc + len(accepted), nrej + len(rejected)
        for r_, why in sorted(rejected, key=lambda x: x[0]["vec"]):
            ent = by_key.setdefault(run_key(r_, why), [0, vs[r_["vec"] - vs[0]["vec"]], r_, why])
            ent[0] += 1
        if rot == 0:
            out["vecs"], out["accepted"] = vs, accepted          # kept for the canaries and the samples
    # violations, one report per key; time-dependent ones are reproduced with a longer window first
    for key, (count, v, r_, why) in by_key.items():
        if key.startswith("C15:confirm:") or "Timeout" in key or r_["steps"][-1]["k"] == "Timeout":
            r3 = replay_vectors(ck, [dict(v, W=3 * W)], "reproduce_%d" % r_["vec"], 1)[0]
            rej3, notes3 = quiet_judge(ck, [r3], "reproduce_%d_judge" % r_["vec"], codes)
            if not rej3 or run_key(r3, first_note(notes3, 1, "run")) != key:
                raise Infra("violation %s on vector %d did not reproduce with a longer window" % (key, r_["vec"]))
        f = run_facts(r_)
        what = ("%s %s (%sconfirm=%s, account %s%s, send %s, polls %s): recorded run is not a behaviour of WalletSend: %s; the history requires %s%s, the call "
                "returned %s after %d polls (%d histories of this class)") % (
            r_["ver"], r_["entry"], "after %d earlier sends through the same wallet value, " % r_["prior"] if r_.get("prior") else "", r_["confirm"], r_["st"] or "-", "(" + r_["n"] + ")" if r_["n"] else "", v["send"] or "-",
            "".join("E" if p["r"] == "err" else "=" if p["v"] == v["same"] else "<" if int(p["v"]) < int(v["same"]) else "+" for p in v["polls"]) or "-",
            why, v["exp"]["res"], " at poll %d" % v["exp"]["npolls"] if v["exp"]["advanced"] else "", f["res"], f["npolls"], count)
        for _ in range(count):
            ck.report(key, what, {"kind": "run", "vector": v, "why": why, "run": slim_run(r_)})
    out["vectors"], out["runs_accepted"], out["runs_rejected"], out["W"] = nvec, nacc, nrej, W
    return out


# ------------------------------------------------------------------------------------------ addresses
ALL_APIS = {"New.GetAddress", "Wallet.StateInit", "GenerateWalletAddress", "GenerateStateInit"}


def addr_flags(e):
    """Which non-default parameters an address event carries (the input class)."""
    cls = set()
    if e["sub"] != "":
        cls.add("sub!=0" if family(e["ver"]) == "v5r1" and e["sub"] != "0" else "sub")
    if e["has_net"]:
        cls.add("net")
    if e["wc_set"] and e["wc"] != 0:
        cls.add("wc")
    return frozenset(cls)


def addr_keys(rejected):
    """key per rejected event. Address events are attributed to the smallest failing parameter class of their version
    (an event with sub, net and wc set fails 'because of' sub if events with only sub set fail too)."""
    keys = {}
    byver = collections.defaultdict(set)
    for e in rejected:
        if e["k"] == "Addr":
            byver[e["ver"]].add(addr_flags(e))
    minimal = {ver: [f for f in fs if not any(g < f for g in fs)] for ver, fs in byver.items()}
    for i, e in enumerate(rejected):
        if e["k"] == "Panic":
            keys[i] = "C15:addr:panic:%s:%s" % (e.get("at"), e.get("ver"))
        elif e["k"] == "Unsupported":
            keys[i] = "C15:addr:unsupported-version:" + e["api"]
        elif e["k"] == "Seed":
            keys[i] = "C15:addr:DefaultWalletFromSeed"
        elif e["k"] == "Addr":
            f = sorted(sorted(m) for m in minimal[e["ver"]] if m <= addr_flags(e))[0]
            keys[i] = "C15:addr:%s:%s" % (e["ver"], ",".join(f) or "defaults")
        else:
            keys[i] = "C15:addr:" + e["k"]
    return keys


ROWF = ("api", "ver", "pub", "seed", "wc_set", "wc", "sub", "has_net", "net", "awc", "addr")


def addr_part(ck, codes, out):
    nsh = 8 if ck.thorough else 4

    def drive(i):
        tp = os.path.join(ck.work, "addr_%02d.ndjson" % i)
        ck.run_vh(["drive", "C15", "-part", "addr", "-out", tp, "-tier", ck.tier, "-seed", ck.seed, "-shard", i, "-shards", nsh])
        return tp
    traces = vlib.parallel(drive, range(nsh), n=nsh)
    # the 'different whenever an input differs' clause is one more event, judged with shard 0: all recorded addresses
    norm = lambda rs: [{k: v for k, v in r_.items() if k != "_ok"} for r_ in rs]
    allrows = [{k: e[k] for k in ROWF} for tp in traces for e in vlib.read_ndjson(tp) if e.get("k") == "Addr" and e["err"] == "" and e["addr"]]
    ev0 = [e for e in vlib.read_ndjson(traces[0]) if e.get("k") != "End"] + [{"k": "Distinct", "rows": allrows}]
    vlib.write_ndjson(traces[0], ev0 + [{"k": "End", "events": len(ev0)}])

    def val(tp):
        res, rej = ck.validate_events(MOD, CFG, tp, timeout=2500, name=os.path.basename(tp)[:-7], heap_gb=4, extra_files={"codes.ndjson": codes})
        return res, rej
    events, rejected, inputs = [], [], set()
    distinct_rejected, dnotes = False, {}
    obs = collections.Counter()
    for tp, (res, rej) in zip(traces, vlib.parallel(val, traces, n=nsh)):
        evs = [e for e in vlib.read_ndjson(tp) if e.get("k") != "End"]
        bad = {r_["line"] for r_ in rej}
        for t in res.notes:
            if len(t) >= 4 and t[2] == "obs":
                obs[t[3]] += 1
        if evs[-1]["k"] == "Distinct":
            distinct_rejected = len(evs) in bad
            dnotes = {1: [t[2:] for t in res.notes if t[1] == len(evs)]}
            evs = evs[:-1]
        for i, e in enumerate(evs):
            e["_ok"] = (i + 1) not in bad
            events.append(e)
            if not e["_ok"]:
                rejected.append(e)
    kinds = collections.Counter(e["k"] for e in events)
    # vacuity: the network-id classes the v5 clauses need (wide ids of both signs, ids equal modulo 2^8 / 2^16 / 2^24)
    for ver in ("V5Beta", "V5R1"):
        nets = {e["net"] for e in events if e["k"] == "Addr" and e["ver"] == ver and e["has_net"]}
        wide = lambda bits: any(n >= 2 ** bits for n in nets) and any(n < -2 ** bits for n in nets)
        cong = lambda bits: any(a != b and (a - b) % 2 ** bits == 0 for a in nets for b in nets)
        if not (wide(15) and wide(23) and cong(8) and cong(16) and cong(24)):
            raise Infra("address driver lacks wide / congruent network ids for %s: %s" % (ver, sorted(nets)))
    # observations outside the statement (never violations)
    obs["v5r1-sub-wallet-option-not-an-input"] = sum(1 for e in events if e["k"] == "Addr" and e["ver"] == "V5R1" and e["sub"] not in ("", "0") and e["_ok"])
    out["observations"] = dict(obs)
    if kinds["Addr"] < 3000 or kinds["Seed"] < 2 or kinds["Unsupported"] < 21:
        raise Infra("address driver recorded too little: %s" % dict(kinds))
    # per-event violations; the API is part of the key only if not every API fails for the class
    keys = addr_keys(rejected)
    groups = collections.OrderedDict()
    for i, e in enumerate(rejected):
        groups.setdefault(keys[i], []).append(e)
    for key, items in list(groups.items()):
        if items[0]["k"] == "Addr" and {e["api"] for e in items} != ALL_APIS:
            del groups[key]
            for e in items:
                groups.setdefault(key + ":" + e["api"], []).append(e)
    for key, items in groups.items():
        e = items[0]
        if e["k"] == "Addr":
            what = ("%s: %s with sub-wallet id %s, workchain %s, network id %s yields %s:%s, which is not the hash of the initial state the "
                    "version documents for these parameters (%d events of this class, APIs: %s)") % (
                e["api"], e["ver"], e["sub"] or "unset", e["wc"] if e["wc_set"] else "unset", e["net"] if e["has_net"] else "unset",
                e["awc"], e["addr"] or "(error)", len(items), ", ".join(sorted({x["api"] for x in items})))
        elif e["k"] == "Unsupported":
            what = "%s accepts %s - versions without a wallet implementation - and returns no error (%d events)" % (
                e["api"], ", ".join(sorted({x["ver"] for x in items})), len(items))
        else:
            what = "%s event rejected: %s" % (e["k"], json.dumps({k: v for k, v in e.items() if k not in ("cells", "_ok")})[:600])
        for _ in items:
            ck.report(key, what, {"kind": "event", "event": {k: v for k, v in e.items() if k != "_ok"}})
    # the 'different whenever an input differs' clause, over everything recorded
    rows = [dict({k: e[k] for k in ROWF}, _ok=e["_ok"]) for e in events if e["k"] == "Addr" and e["err"] == "" and e["addr"]]
    for e in rows:
        inputs.add((e["ver"], e["pub"], e["wc_set"], e["wc"], e["sub"], e["has_net"], e["net"]))
    out["distinct_all"] = "rejected" if distinct_rejected else "accepted"
    if distinct_rejected:
        # is it a consequence of events already reported? then it holds over the accepted ones
        okrows = norm([r_ for r_ in rows if r_["_ok"]])
        rej2, notes2 = quiet_judge(ck, [{"k": "Distinct", "rows": okrows}], "distinct_ok", codes)
        if rej2 or not rejected:
            w = first_note(notes2 if rej2 else dnotes, 1, "distinct")
            try:
                col = json.loads(w)
                vers = sorted({i["ver"] for i in col["inputs"]})
                key = "C15:addr:collision:" + "+".join(vers)
            except Exception:
                col, key = w, "C15:addr:collision"
            ck.report(key, "different inputs yield the same address: %s" % json.dumps(col)[:900], {"kind": "distinct", "rows": okrows if rej2 else norm(rows)})
        else:
            ck.notes.append("the distinctness clause fails over all recorded addresses only through the events already reported (%s): "
                            "it holds over the accepted ones" % ", ".join(groups))
    out["events"], out["kinds"], out["inputs"], out["rows"] = events, dict(kinds), len(inputs), rows
    return out


# ---------------------------------------------------------------------------------------------- canaries
def canaries(ck, codes, send, addr):
    """Corrupted copies of recorded (or, where the implementation produced none of the needed shape, of conforming synthetic)
    records must be rejected; the unaltered ones accepted. A canary that cannot be built is an infrastructure failure unless
    violations were reported (an implementation that never behaves in the needed way is reported, not masked by exit 2)."""
    cases, skipped = [], []          # cases: [name, event, must_reject, depends_on_control]
    acc, allruns, W = send["accepted"], send["runs"], send["W"]

    def pick(pred, pool=None):
        for r_ in (acc if pool is None else pool):
            if pred(r_):
                return copy.deepcopy(r_)
        raise LookupError()

    def add(name, f, dep=None):
        try:
            cases.append([name, f(), True, dep])
        except LookupError:
            skipped.append(name)

    sent_ok = lambda r_: any(s["k"] == "Send" and s["r"] == "ok" for s in r_["steps"])
    tout = lambda r_: (r_["confirm"] and r_["ver"] != "HighLoadV2R2" and run_facts(r_)["res"] == "err" and run_facts(r_)["npolls"] >= 6
                       and r_["exp"]["res"] == "err" and r_["exp"]["sent"] and r_["steps"][-1]["k"] == "Return" and sent_ok(r_)
                       and not r_["exp"]["free"])
    notmax = lambda r_: r_["n"] != "4294967295" and r_["rawseq"] != "4294967295"
    synth = {}

    def timeout_base(extra=lambda r_: True):
        """a run that sent, polled without seeing an advance and gave up at the deadline"""
        try:
            return pick(lambda r_: tout(r_) and extra(r_)), None
        except LookupError:
            pass
        # what a conforming wallet would have logged, around a message the real code produced
        r_ = pick(lambda r_: r_["confirm"] and r_["ver"] != "HighLoadV2R2" and sent_ok(r_) and not r_["exp"]["free"] and extra(r_), allruns)
        k = next(i for i, s in enumerate(r_["steps"]) if s["k"] == "Send")
        r_["steps"] = r_["steps"][:k + 1] + [
            {"k": "Poll", "i": i + 1, "r": "val", "v": r_["exp"]["seq"], "us": i * W * 100 + 7, "scripted": False, "awc": r_["awc"], "for": r_["addr"]}
            for i in range(10)] + [{"k": "Return", "res": "err", "us": W * 1000 + W * 20}]
        name = "control: conforming synthetic timeout run %d" % r_["vec"]
        if name not in synth:
            synth[name] = True
            cases.append([name, copy.deepcopy(r_), False, None])
        return r_, name

    def c_state():
        c = pick(lambda r_: r_["entry"] == "SendV2" and r_["st"] == "uninit" and r_["ver"] == "V4R2" and run_facts(r_)["sent"])
        for s in c["steps"]:
            if s["k"] == "GetState":
                s["st"], s["n"] = "active", "5"
        return c
    add("S->C run: logged account state changed to active(5)", c_state)

    def with_base(name, mod, extra=lambda r_: True):
        try:
            c, dep = timeout_base(extra)
            mod(c)
            cases.append([name, c, True, dep])
        except (LookupError, StopIteration):
            skipped.append(name)

    def m_ok(c):
        c["steps"][-1]["res"] = "ok"
    with_base("S->C run: timeout logged as success", m_ok)

    def m_adv(c):
        k = [i for i, s in enumerate(c["steps"]) if s["k"] == "Poll"][2]
        c["steps"][k]["r"], c["steps"][k]["v"] = "val", "4294967295"
    with_base("S->C run: a poll reports the seqno advanced, polling continues to the timeout", m_adv, notmax)
    sig = cases[-1][1] if cases and cases[-1][0].startswith("S->C run: a poll reports") else None

    def m_lower(c):
        ps = [i for i, s in enumerate(c["steps"]) if s["k"] == "Poll"]
        c["steps"][ps[1]]["v"] = "0"
        c["steps"] = c["steps"][:ps[1] + 1] + [{"k": "Return", "res": "ok", "us": c["steps"][ps[1]]["us"] + 50}]
    with_base("S->C run: a poll answers below the seqno used and the call reports success", m_lower, lambda r_: notmax(r_) and r_["exp"]["seq"] not in ("", "0"))

    def m_early(c):
        c["steps"] = [s for s in c["steps"] if s["k"] != "Poll"][:-1] + [{"k": "Return", "res": "err", "us": W * 300}]
    with_base("S->C run: error returned at a third of the window", m_early)

    def c_dest():
        c = pick(lambda r_: run_facts(r_)["sent"] and r_["wc"] == 0)
        c["wc"] = 1
        return c
    add("S->C run: destination is not the wallet's own address", c_dest)

    def c_nosend():
        c = pick(lambda r_: r_["entry"] == "Send" and run_facts(r_)["sent"] and run_facts(r_)["res"] == "ok")
        c["steps"] = [s for s in c["steps"] if s["k"] != "Send"]
        return c
    add("S->C run: Send step dropped", c_nosend)

    def c_init():
        c = pick(lambda r_: r_["entry"] == "SendV2" and r_["st"] == "none" and run_facts(r_)["sent"] and r_["ver"] == "V5R1")
        for s in c["steps"]:
            if s["k"] == "GetState":
                s["st"], s["n"] = "active", "0"
        return c
    add("S->C run: init attached although the account is active", c_init)
    add("control: an accepted run", lambda: pick(lambda r_: True))
    cases[-1][2] = False
    # --- addresses
    aev = [e for e in addr["events"] if e["k"] == "Addr" and e["_ok"]]
    clean = lambda e: {k: v for k, v in e.items() if k != "_ok"}

    def apick(pred):
        for e in aev:
            if pred(e):
                return copy.deepcopy(clean(e))
        raise LookupError()

    def flip(h):
        return h[:-1] + ("0" if h[-1] != "0" else "1")

    def upd(pred, **kw):
        def f():
            c = apick(pred)
            for k, v in kw.items():
                c[k] = v(c) if callable(v) else v
            return c
        return f
    add("C->S addr: one hex digit of the address changed", upd(lambda e: e["api"] == "New.GetAddress", addr=lambda c: flip(c["addr"])))
    add("C->S addr: logged sub-wallet id changed", upd(lambda e: e["ver"] == "V3R2" and e["sub"] == "1", sub="0"))
    add("C->S addr: logged network id changed (v5r1)", upd(lambda e: e["ver"] == "V5R1" and e["has_net"] and e["net"] == -3, net=-239))
    for ver in ("V5R1", "V5Beta"):
        add("C->S addr: network id 65533 logged as -3 (equal modulo 2^16, %s)" % ver, upd(lambda e, ver=ver: e["ver"] == ver and e["has_net"] and e["net"] == 65533, net=-3))
    add("C->S addr: logged workchain changed (the default sub-wallet id depends on it)",
        upd(lambda e: e["ver"] == "V4R2" and e["wc_set"] and e["wc"] == -1 and e["sub"] == "" and e["api"] == "GenerateStateInit", wc=0, awc=0))

    def c_cells():
        c = apick(lambda e: e["ver"] == "HighLoadV2R2" and e["api"] == "Wallet.StateInit")
        c["cells"][-1]["b"] = flip(c["cells"][-1]["b"])
        return c
    add("C->S addr: one bit of the returned state-init cells changed", c_cells)
    add("C->S addr: logged version changed", upd(lambda e: e["ver"] == "V3R1", ver="V3R2"))
    add("control: an accepted address event", lambda: apick(lambda e: True))
    cases[-1][2] = False
    cd = vlib.read_ndjson(codes)
    c = copy.deepcopy(next(e for e in cd if e["ver"] == "V4R1"))
    c["boc"] = next(e for e in cd if e["ver"] == "V4R2")["boc"]
    cases.append(["C->S code: the bag labelled V4R1 is the V4R2 code", c, True, None])
    rows4 = [r_ for r_ in addr["rows"] if r_["ver"] == "V4R2" and r_["_ok"]][:300]
    rows4 = [{k: v for k, v in r_.items() if k != "_ok"} for r_ in rows4]

    def c_distinct():
        rows = copy.deepcopy(rows4)
        try:
            a = 0
            b = next(i for i, r_ in enumerate(rows) if (r_["sub"], r_["wc"], r_["pub"]) != (rows[a]["sub"], rows[a]["wc"], rows[a]["pub"]) and r_["awc"] == rows[a]["awc"])
        except (StopIteration, IndexError):
            raise LookupError()
        rows[b]["addr"] = rows[a]["addr"]
        return {"k": "Distinct", "rows": rows}
    add("C->S distinct: two different inputs given the same address", c_distinct)
    if rows4:
        cases.append(["control: distinctness over accepted V4R2 rows", {"k": "Distinct", "rows": rows4}, False, None])
    rej, notes = quiet_judge(ck, [c[1] for c in cases], "canary", codes)
    bad = {r_["line"] for r_ in rej}
    verdict = {c[0]: (i + 1) in bad for i, c in enumerate(cases)}
    reported = bool(ck.violations or ck.known_hit)
    for i, (name, evt, must_reject, dep) in enumerate(cases):
        if dep is not None and verdict.get(dep):
            skipped.append(name)          # its synthetic base is itself rejected (the message the code produced is wrong)
            continue
        if must_reject:
            ck.canary(name, verdict[name])
        elif verdict[name] and name.startswith("control: conforming synthetic") and reported:
            skipped.append(name)
        else:
            ck.canary(name, not verdict[name])
    if sig is not None and verdict.get(cases[[c[0] for c in cases].index("S->C run: a poll reports the seqno advanced, polling continues to the timeout")][0]):
        i = [c[0] for c in cases].index("S->C run: a poll reports the seqno advanced, polling continues to the timeout")
        why = first_note(notes, i + 1, "run")
        if run_key(sig, why) != "C15:confirm:err==nil-continue":
            raise Infra("the defect-signature canary was rejected for another reason than expected: %s" % why)
    if skipped:
        if not reported:
            raise Infra("canaries could not be built: %s" % skipped)
        ck.notes.append("canaries not constructible from this run's records (violations are reported instead): %s" % "; ".join(skipped))
    if len([c for c in ck.canaries if c["rejected"]]) < 8 and not reported:
        raise Infra("too few canaries")


# ---------------------------------------------------------------------------------------------- entry points
def drive_codes(ck):
    raw = os.path.join(ck.work, "codes_raw.ndjson")
    ck.run_vh(["drive", "C15", "-part", "codes", "-out", raw])
    codes = strip_end(raw, os.path.join(ck.work, "codes.ndjson"))
    evs = [e for e in vlib.read_ndjson(raw) if e.get("k") != "End"]
    if len([e for e in evs if e["k"] in ("Code", "Panic")]) != 12:
        raise Infra("code driver did not cover the 12 supported versions")
    return raw, codes, evs


def judge_codes(ck, raw, codes):
    res, rej = ck.validate_events(MOD, CFG, raw, name="codes", extra_files={"codes.ndjson": codes})
    return rej


def prepare_codes(ck):
    raw, codes, evs = drive_codes(ck)
    return codes, evs, judge_codes(ck, raw, codes)


def run(ck):
    ck.assumptions += ["TLC 1.8.0 + CommunityModules Json", "Prim: Sha256, EdPubFromSeed (RFC 8032 key generation), converters; Cells/Boc as validated by C01/C02",
                       "published code hashes = abi/schemas/wallets.xml (pinned in WalletSend.tla); storage layouts from the wallet contracts' sources / W5 documentation",
                       "v5r1: the sub-wallet id option is not an input (API documents it for V3/V4; v5beta and highload take it too): the address must be the one for sub-wallet number 0 whatever the option; v1/v2 have no sub-wallet id, non-v5 no network id",
                       "versions without a wallet implementation have no address: an API that does not refuse them is counted as an observation",
                       "frozen account: seqno/init unconstrained; confirmation on a highload wallet (no seqno) may be refused after sending",
                       "time: deadline judged with a slack of one poll interval (window/10); an error later than 2 windows + 2 s is rejected; scripted polls "
                       "not reached before the deadline and runs rejected only for a clock reading are replayed again with a 3x, then 6x window; confirmation violations are reproduced with a 3x window before being reported",
                       "mnemonic -> key derivation (PBKDF2) is not part of the statement: DefaultWalletFromSeed is judged against the key SeedToPrivateKey derives",
                       "scripted chain answers errors as (0, error)"]
    ck.build_vh()
    raw, codes, cevs = drive_codes(ck)
    send, addr, errs, cres = {}, {}, [], {}

    def guard(f, out):
        try:
            f(ck, codes, out)
        except BaseException as ex:        # noqa
            errs.append(ex)

    def codes_job(ck, codes, out):
        out["rej"] = judge_codes(ck, raw, codes)
    threads = [threading.Thread(target=guard, args=(addr_part, addr)), threading.Thread(target=guard, args=(codes_job, cres))]
    for t in threads:
        t.start()
    guard(send_part, send)
    for t in threads:
        t.join()
    if cres.get("rej"):
        # everything else is derived from the code cells: report only this
        for r_ in cres["rej"]:
            e = r_["event"]
            ck.report("C15:code:%s" % e.get("ver"), "the code cell attached for %s is not the published code (hash %s)" % (e.get("ver"), e.get("hash")),
                      {"kind": "code", "event": e})
        ck.violations = [v for v in ck.violations if v["key"].startswith("C15:code:")]
        ck.notes.append("code cells are not the published ones: the address and send parts are not judged")
        return ck.finish(rule=RULE, distinct=0)
    if errs:
        raise errs[0]
    canaries(ck, codes, send, addr)
    ck.extra.update({"histories_replayed": send["vectors"], "runs_accepted": send["runs_accepted"], "runs_rejected": send["runs_rejected"],
                     "runs_replayed_again_for_timing": send["rerun_for_timing"], "generator_states_per_rotation": send["gen_states"],
                     "confirmation_window_ms": send["W"], "address_events": addr["kinds"], "address_inputs": addr["inputs"],
                     "distinct_over_all_rows": addr["distinct_all"], "code_cells_pinned": 12,
                     "observations": addr["observations"]})
    if addr["observations"].get("v5r1-sub-wallet-option-not-an-input"):
        ck.notes.append("observation (outside the statement): for V5R1 the sub-wallet id option is not an input of the address (the API documents it as used by "
                        "V3/V4 only): %d recorded addresses with the option set equal the address for sub-wallet number 0, as required" % addr["observations"]["v5r1-sub-wallet-option-not-an-input"])
    if addr["observations"].get("unsupported-version-not-refused"):
        ck.notes.append("observation (outside the statement): %d calls for versions without a wallet implementation returned no error "
                        "(GenerateStateInit yields an empty StateInit)" % addr["observations"]["unsupported-version-not-refused"])
    v0 = next(v for v in send["vecs"] if v["exp"]["advanced"] and v["exp"]["npolls"] == 3 and v["entry"] == "SendV2")
    ck.sample({"direction": "S->C", "history": {k: v0[k] for k in ("ver", "entry", "confirm", "wc", "acct", "send", "polls", "exp")}})
    a0 = next(e for e in addr["events"] if e["k"] == "Addr" and e["ver"] == "V5R1" and e["has_net"] and e["_ok"])
    ck.sample({"direction": "C->S", "event": {k: v for k, v in a0.items() if k not in ("cells", "_ok")}})
    ck.sample({"direction": "C->S", "event": {k: (v if k != "boc" else v[:60] + "...") for k, v in cevs[5].items()}})
    return ck.finish(rule=RULE, distinct=send["vectors"] + addr["inputs"])


def replay(ck, path):
    """Re-execute the vector / event of a replay file against the current tree and judge it again."""
    ck.build_vh()
    codes, cevs, crej = prepare_codes(ck)
    rp = json.load(open(path))["replay"]
    bad = False
    if rp["kind"] == "code":
        bad = bool(crej)
        print(json.dumps([r_["event"] for r_ in crej])[:2000])
    elif crej:
        raise Infra("code cells are not the published ones; fix that first")
    elif rp["kind"] == "run":
        r_ = replay_vectors(ck, [rp["vector"]], "replay", 1)[0]
        rej, notes = judge(ck, [r_], "replay_judge", codes)
        print(json.dumps(slim_run(r_)))
        if rej:
            why = first_note(notes, 1, "run")
            print("rejected: %s  (key %s)" % (why, run_key(r_, why)))
        bad = bool(rej) or outcome_differs(r_)
    elif rp["kind"] == "event":
        vp, op = os.path.join(ck.work, "ev.ndjson"), os.path.join(ck.work, "ev_out.ndjson")
        vlib.write_ndjson(vp, [rp["event"]])
        ck.run_vh(["replay", "C15", "-in", vp, "-out", op])
        evs = [e for e in vlib.read_ndjson(op) if e.get("k") != "End"]
        rej, notes = judge(ck, evs, "replay_judge", codes)
        print(json.dumps({k: v for k, v in evs[0].items() if k != "cells"}))
        bad = bool(rej)
    elif rp["kind"] == "distinct":
        vp, op = os.path.join(ck.work, "ev.ndjson"), os.path.join(ck.work, "ev_out.ndjson")
        vlib.write_ndjson(vp, [dict(r_, k="Addr") for r_ in rp["rows"]])
        ck.run_vh(["replay", "C15", "-in", vp, "-out", op])
        rows = [{k: e[k] for k in ROWF} for e in vlib.read_ndjson(op) if e.get("k") == "Addr" and e["addr"]]
        rej, notes = judge(ck, [{"k": "Distinct", "rows": rows}], "replay_judge", codes)
        print(first_note(notes, 1, "distinct") if rej else "all distinct")
        bad = bool(rej)
    else:
        raise Infra("unknown replay kind %r" % rp["kind"])
    if bad:
        print("VIOLATION property=C15 replay=%s" % path)
        return 1
    print("held: the recorded input is now accepted")
    return 0
