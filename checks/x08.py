# X08 (extra check): the shard chains of a workchain and the library functions that compute with them
# (ton.GetParents, ton.ShardIDs, ton.ToBlockId, ton.ShardID, ton.ParseBlockID / BlockID.String) against spec/ShardChain.tla.
import json, os, copy, collections
import vlib, xgrow
from vlib import Infra, log

RULE = ("Design: ShardChain_MC checks exhaustively (splitting depth <= 3, bounded number of blocks) that the shards always partition the 2^64 "
        "address space (probe addresses at both ends of every finest interval + measure + pairwise disjointness), that the node's 64-bit "
        "arithmetic (lower_bit64, shard_child / parent / sibling / contains / is_ancestor / intersects on bit sequences) agrees with the "
        "prefix view, the seq_no rule (1 + the largest previous seq_no, merges included), that chains never fork and that configurations are "
        "listed from left to right. S->C: TLC -simulate walks the machine (NewBlock, Split, Merge, McBlock) and prints behaviours; for "
        "every block the harness writes a BlockInfo cell bit by bit per block.tlb (BlkPrevInfo 0 / 1 as after_merge says), decodes it with "
        "tlb.Unmarshal and calls ton.GetParents (and GetParents on the filled struct); for every masterchain block it writes a McBlockExtra "
        "cell (HashmapE 32 ^(BinTree ShardDescr)), decodes it and calls ton.ShardIDs and ToBlockId; the runner compares with the previous "
        "blocks / leaves the behaviour names (order included). C->S: random chains (random hashes, workchains, depth up to 60, halves of a "
        "split apart) and adversarial inputs are recorded; ShardChain_Trace keeps the machine's state per segment, accepts a block only as "
        "an enabled step whose reported previous blocks are the last blocks of the consumed shards, a masterchain block only if the cells "
        "hold the state's configuration and the answer lists the leaves from left to right with the shard of the PATH; ShardID Parse / "
        "Encode / MatchAccountID / MatchBlockID are re-derived by the arithmetic on both sides of every boundary. A panic is never "
        "accepted. distinct = distinct behaviours + distinct recorded events.")
TRACE = ("ShardChain_Trace", "trace/ShardChain_Trace.cfg")

# the classes of free-standing inputs the driver must have produced (vacuity)
NEED = ["Blk:new", "Blk:split", "Blk:merge", "Mc:mc", "Parents:valid", "Parents:constructor-mismatch", "Parents:pfx-bits>60:decode",
        "Parents:free:pfx-bits>60:struct", "Parents:free:after-split-of-root", "Parents:free:after-merge-at-depth-60", "Parents:free:after-merge+after-split",
        "Parents:free:prefix-bits-below-tag", "ShardIDs:malformed", "ShardIDs:wellformed:seqno0-or-nvs-or-depth", "ShardIDs:free:fork-with-extra-data",
        "ToBlockId:descr", "Parse:valid", "Parse:no-tag-bit", "Parse:free:deeper-than-60", "MatchAcc:in", "MatchAcc:out", "MatchBlk:in", "MatchBlk:out",
        "MatchBlk:free:block-without-tag-bit", "IdText:text", "ParseId:ok", "ParseId:bad"]


def key_of(e, note):
    k, cl = e.get("k", "?"), (note[1] if note and len(note) > 1 else "?")
    if e.get("panic"):
        return "X08:%s:panic" % k
    if k in ("Parents", "Blk"):
        if cl == "pfx-bits>60:decode":
            return "X08:ShardIdent:decode:pfx-bits>60"
        return "X08:GetParents:%s:%s" % (e.get("src", "?"), cl)
    if k in ("Mc", "ShardIDs"):
        return "X08:ShardIDs:%s" % cl
    return "X08:%s:%s" % (k, cl)


def validate(ck, path, name, timeout=1500):
    """trace spec over a stripped file: returns (rejected, notes by line, counter of classes)"""
    res, rejected = ck.validate_segments(*TRACE, path, timeout=timeout, name=name, heap_gb=3)
    notes, kinds = {}, collections.Counter()
    for t in res.tuples("NOTE"):
        notes[t[1]] = t[2:]
        kinds["%s:%s" % (t[2], t[3])] += 1
    return rejected, notes, kinds


def compare(step, evs):
    """S->C: the events of one step of a behaviour against what the behaviour says. Returns None or the reason."""
    if step["t"] == "blk":
        for e in evs:
            if e["k"] not in ("Blk", "Parents"):
                continue
            if e["panic"]:
                return "panic"
            if e["dec"] or e["err"]:
                return "refused"
            if e["parents"] != step["parents"]:
                return "parents"
        return None if any(e["k"] == "Blk" for e in evs) else "no-call"
    e = next((e for e in evs if e["k"] == "Mc"), None)
    if e is None:
        return "no-call"
    if e["panic"]:
        return "panic"
    if e["dec"]:
        return "refused"
    got = [{k: i[k] for k in ("shard", "seqno", "root", "file")} for i in e["ids"] if i["wc"] == step["wc"]]
    want = [{k: l[k] for k in ("shard", "seqno", "root", "file")} for l in step["leaves"]]
    # a shard without a block yet (seq_no 0) may be listed or not
    if got != want and got != [l for l in want if l["seqno"] != 0]:
        return "shards"
    return None


def run(ck):
    ck.assumptions += ["TLC + CommunityModules Json; Prim converters only (the 64-bit arithmetic is TLA+ on bit sequences)",
                       "time, logical time, validator sets, the before_split / before_merge announcements and block contents are not modelled",
                       "tlb.BlockInfo has no encoder in tongo (tlb.Marshal refuses it): headers reach the decoder as cells the harness writes per block.tlb",
                       "the HashmapE 32 around the BinTrees is written in the hml_long label form; its key order is not part of any expectation "
                       "(answers are compared per workchain)", "chain sequence numbers stay below 2^30 (larger ones only in free-standing calls)"]
    ck.build_vh()
    th = ck.thorough
    jobs = {}

    # ---- design: exhaustive model
    def mc():
        return ck.tlc_or_infra("ShardChain_MC", "mc/ShardChain_MC_full.cfg" if th else "mc/ShardChain_MC.cfg", workers=8 if th else 6, timeout=1500, name="mc", heap_gb=4)

    def mc_canary():
        return ck.tlc("ShardChain_MC", "mc/ShardChain_MC_canary.cfg", workers=2, timeout=600, name="mc_canary", heap_gb=2)

    def gen():
        num, depth = (400, 42) if th else (40, 16)
        return xgrow.gen(ck, "ShardChain_Gen", "gen/ShardChain_Gen_full.cfg" if th else "gen/ShardChain_Gen.cfg", {}, "gen", workers=1,
                         args=["-simulate", "num=%d" % num, "-depth", str(depth), "-seed", str(ck.seed)])
    shards = 8 if th else 2

    def drive(i):
        tp = os.path.join(ck.work, "trace_%02d.ndjson" % i)
        p_ = ck.run_vh(["drive", "X08", "-out", tp, "-tier", ck.tier, "-seed", ck.seed, "-shard", i, "-shards", shards], check=False)
        es, pend_ = xgrow.strip(tp, tp + ".s")
        if pend_:
            ck.report("X08:crash", "driver died inside a call: %s" % json.dumps(pend_)[:600], {"kind": "drive", "shard": i, "shards": shards, "seed": ck.seed, "tier": ck.tier})
        elif p_.returncode != 0:
            raise Infra("driver failed: " + p_.stdout[-2000:])
        return es

    def cs(i):
        es = drive(i)
        return es, validate(ck, os.path.join(ck.work, "trace_%02d.ndjson.s" % i), "trace_%02d" % i)
    names = ["mc", "mc_canary", "gen"] + ["cs%d" % i for i in range(shards)]
    fns = [mc, mc_canary, gen] + [(lambda i=i: cs(i)) for i in range(shards)]
    out = dict(zip(names, vlib.parallel(lambda f: f(), fns, n=len(fns))))

    mcres = out["mc"]
    mcn = [t for t in mcres.tuples("MC")]
    if not mcres.completed or not mcn:
        raise Infra("the exhaustive model did not complete: %s" % mcres.out[-1500:])
    ck.extra["model"] = {"distinct_states": mcres.distinct, "generated": mcres.generated, "wall_s": round(mcres.wall, 1)}
    ck.canary("design: a behaviour with a split, a merge and a masterchain block exists (the invariant denying it is violated)",
              "Reached" in out["mc_canary"].invariant_violated)

    # ---- S->C
    vecs = out["gen"]
    tot = collections.Counter()
    for v in vecs:
        for k in ("splits", "merges", "mcs"):
            tot[k] += v[k]
    if not (tot["splits"] and tot["merges"] and tot["mcs"]):
        raise Infra("generated behaviours lack steps: %s" % dict(tot))
    ck.extra["behaviours"] = {"count": len(vecs), "steps": sum(len(v["steps"]) for v in vecs), **tot}
    evs, pending, p = xgrow.run_vectors(ck, "X08", vecs, "vectors")
    if pending:
        ck.report("X08:crash", "replayer died inside a call: %s" % json.dumps(pending)[:600], {"kind": "vectors", "vectors": vecs[:1]})
    elif p.returncode != 0:
        raise Infra("replay died: %s" % p.stdout[-2000:])
    by = collections.defaultdict(list)
    for e in evs:
        if e["k"] != "Reset":
            by[(e["vec"], e["step"])].append(e)
    rejected, notes, kinds_sc = validate(ck, os.path.join(ck.work, "vectors_out.ndjson.s"), "trace_gen")
    steps_checked = 0
    for v in vecs:
        for i, s in enumerate(v["steps"]):
            why = compare(s, by[(v["vec"], i)])
            steps_checked += 1
            if why:
                e = (by[(v["vec"], i)] or [{"k": "?"}])[0]
                ck.report("X08:%s:%s:%s" % ("GetParents" if s["t"] == "blk" else "ShardIDs", s.get("kind", "mc"), why),
                          "behaviour %d step %d (%s): the machine requires %s; the library gave %s" % (
                              v["vec"], i, s.get("kind", "mc"), json.dumps(s.get("parents", s.get("leaves")))[:600], json.dumps(e)[:900]),
                          {"kind": "vectors", "vectors": [v]})
    for r in rejected:
        e = r["event"]
        ck.report(key_of(e, notes.get(r["line"])), "behaviour %s step %s: rejected by ShardChain_Trace (%s): %s" % (e.get("vec"), e.get("step"), notes.get(r["line"]), json.dumps(e)[:1200]),
                  {"kind": "vectors", "vectors": [v for v in vecs if v["vec"] == e.get("vec")]})
    ck.evaluations += steps_checked
    ck.sample({"direction": "S->C", "step": next(s for v in vecs for s in v["steps"] if s["t"] == "blk" and s["kind"] == "merge")})
    # canaries S->C: the expectation altered
    cands = [(v, i, s) for v in vecs for i, s in enumerate(v["steps"])]
    v, i, s = next(c for c in cands if c[2]["t"] == "blk" and c[2]["kind"] == "merge")
    c = copy.deepcopy(s); c["parents"] = c["parents"][::-1]
    ck.canary("S->C: expected previous blocks of a merge swapped", compare(c, by[(v["vec"], i)]) is not None)
    c = copy.deepcopy(s); c["parents"][1]["seqno"] += 1
    ck.canary("S->C: expected seq_no of a previous block altered", compare(c, by[(v["vec"], i)]) is not None)
    v, i, s = next(c for c in cands if c[2]["t"] == "blk" and c[2]["kind"] == "split")
    c = copy.deepcopy(s); c["parents"][0]["shard"] = c["shard"]
    ck.canary("S->C: expected previous block of a split half named with the child's shard", compare(c, by[(v["vec"], i)]) is not None)
    v, i, s = next(c for c in cands if c[2]["t"] == "mc" and len([l for l in c[2]["leaves"] if l["seqno"]]) >= 2)
    c = copy.deepcopy(s); c["leaves"] = c["leaves"][:-1]
    ck.canary("S->C: a shard dropped from the expected configuration", compare(c, by[(v["vec"], i)]) is not None)
    c = copy.deepcopy(s); c["leaves"] = c["leaves"][::-1]
    ck.canary("S->C: expected configuration listed from right to left", compare(c, by[(v["vec"], i)]) is not None)

    # ---- C->S
    kinds = collections.Counter(kinds_sc)
    distinct = set()
    traces = []
    for i in range(shards):
        es, (rej, nts, kd) = out["cs%d" % i]
        traces.append((es, rej))
        kinds.update(kd)
        for e in es:
            if e["k"] != "Reset":
                distinct.add(json.dumps({k: x for k, x in e.items() if k not in ("root", "file")}, sort_keys=True)[:400])
        for r in rej:
            e = r["event"]
            ck.report(key_of(e, nts.get(r["line"])), "recorded call is not what ShardChain requires (%s): %s" % (nts.get(r["line"]), json.dumps(e)[:1500]),
                      {"kind": "drive", "shard": i, "shards": shards, "seed": ck.seed, "tier": ck.tier, "line": r["line"]})
    ck.extra["events_by_class"] = dict(sorted(kinds.items()))
    missing = [n for n in NEED if kinds[n] == 0]
    if missing:
        raise Infra("recorded traces lack classes: %s" % missing)
    ck.extra["vacuity"] = {"splits": kinds["Blk:split"], "merges": kinds["Blk:merge"], "mc_blocks": kinds["Mc:mc"],
                           "adversarial": sum(n for k, n in kinds.items() if ":free:" in k or k.split(":", 1)[1] in (
                               "constructor-mismatch", "pfx-bits>60:decode", "malformed", "no-tag-bit", "bad", "wellformed:seqno0-or-nvs-or-depth"))}
    if not all(ck.extra["vacuity"].values()):
        raise Infra("vacuity: %s" % ck.extra["vacuity"])
    free = sorted(k for k in kinds if ":free:" in k or "seqno0-or-nvs" in k)
    ck.notes.append("observation (not a verdict; the TON rules do not decide these, any answer without a panic is admitted): " + ", ".join("%s x%d" % (k, kinds[k]) for k in free))
    ck.notes.append("observation: ton.ShardIDs / ToBlockId take the shard of a leaf from next_validator_shard, not from the path in the BinTree; validators "
                    "require the two to be equal, so the answers differ only on configurations no validator signs; shards with seq_no 0 are left out of the answer")

    # canaries C->S: one segment per mutation, cut right after the altered event
    es0, rej0 = traces[0]
    badsegs = set(r["seg"] for r in rej0)
    starts = [i for i, e in enumerate(es0) if e["k"] == "Reset"] + [len(es0)]
    segof = {}
    for a, b in zip(starts, starts[1:]):
        for j in range(a, b):
            segof[j] = a
    cl = []

    def mut(nm, pred, f, cut=True):
        for j, e in enumerate(es0):
            if e["k"] != "Reset" and (segof[j] + 1) not in badsegs and pred(e):
                seg = copy.deepcopy(es0[segof[j]:j + 1])
                if f(seg) is False:
                    continue
                cl.append((nm, seg))
                return
        if not ck.violations and not ck.known_hit:
            raise Infra("no accepted event for canary '%s'" % nm)
    blk = lambda kind: (lambda e: e["k"] == "Blk" and e["am"] == (1 if kind == "merge" else 0) and e["as"] == (1 if kind == "split" else 0))
    mcev = lambda e: e["k"] == "Mc" and len([i for i in e["ids"] if i["wc"] == e["wc"]]) >= 2

    def drop_id(seg):
        e = seg[-1]
        k = next(i for i, x in enumerate(e["ids"]) if x["wc"] == e["wc"])
        del e["ids"][k]

    def swap_ids(seg):
        e = seg[-1]
        ks = [i for i, x in enumerate(e["ids"]) if x["wc"] == e["wc"]]
        e["ids"][ks[0]], e["ids"][ks[1]] = e["ids"][ks[1]], e["ids"][ks[0]]

    def flip_tree_bit(seg):
        e = seg[-1]
        w = next(w for w in e["wcs"] if w["wc"] == e["wc"])
        row = next(r for r in w["tree"] if len(r["b"]) > 800)
        row["b"] = row["b"][:300] + ("1" if row["b"][300] == "0" else "0") + row["b"][301:]

    def drop_earlier_block(seg):
        e = seg[-1]
        ks = [i for i, x in enumerate(seg[:-1]) if x["k"] == "Blk" and (x["pfxbits"], x["prefix"]) == (e["pfxbits"], e["prefix"])]
        if not ks:
            return False
        del seg[ks[-1]]

    def bump(x):
        return x + 1 if isinstance(x, int) else str(int(x) + 1)
    mut("control", blk("merge"), lambda seg: None)
    mut("previous blocks of a merge swapped in the answer", blk("merge"), lambda seg: seg[-1].update(parents=seg[-1]["parents"][::-1]))
    mut("one previous block of a merge missing from the answer", blk("merge"), lambda seg: seg[-1].update(parents=seg[-1]["parents"][:1]))
    mut("seq_no of a reported previous block altered", blk("new"), lambda seg: seg[-1]["parents"][0].update(seqno=bump(seg[-1]["parents"][0]["seqno"])))
    mut("previous block of a split half reported with the child's shard", blk("split"),
        lambda seg: seg[-1]["parents"][0].update(shard=seg[-1]["prefix"][:seg[-1]["pfxbits"]] + "1" + "0" * (63 - seg[-1]["pfxbits"])))
    mut("root hash of a reported previous block altered", blk("split"), lambda seg: seg[-1]["parents"][0].update(root=xgrow.flip_hex(seg[-1]["parents"][0]["root"], 5)))
    mut("workchain of a reported previous block altered", blk("new"), lambda seg: seg[-1]["parents"][0].update(wc=str(int(seg[-1]["parents"][0]["wc"]) + 1)))
    mut("merge block whose seq_no is not 1 + the larger previous seq_no", blk("merge"), lambda seg: seg[-1].update(seqno=seg[-1]["seqno"] + 1))
    mut("a block of the chain dropped (the next one names a block that is not the last of its shard)", blk("new"), drop_earlier_block)
    mut("error logged for a valid header", blk("new"), lambda seg: seg[-1].update(err="e", parents=[]))
    mut("panic logged", blk("new"), lambda seg: seg[-1].update(panic="x"))
    mut("a shard dropped from a ShardIDs answer", mcev, drop_id)
    mut("two shards of a ShardIDs answer exchanged", mcev, swap_ids)
    mut("one bit of a recorded descriptor altered (not the configuration of the state)", mcev, flip_tree_bit)
    mut("masterchain block out of sequence", lambda e: e["k"] == "Mc", lambda seg: seg[-1].update(seqno=seg[-1]["seqno"] + 1))
    mut("MatchAccountID verdict negated", lambda e: e["k"] == "MatchAcc", lambda seg: seg[-1].update(out=not seg[-1]["out"]))
    mut("MatchBlockID verdict negated", lambda e: e["k"] == "MatchBlk" and "1" in e["blk"], lambda seg: seg[-1].update(out=not seg[-1]["out"]))
    mut("Encode of a parsed shard id altered", lambda e: e["k"] == "Parse" and e["enc"], lambda seg: seg[-1].update(enc=seg[-1]["enc"][:10] + ("1" if seg[-1]["enc"][10] == "0" else "0") + seg[-1]["enc"][11:]))
    mut("shard id without tag bit logged as parsed", lambda e: e["k"] == "Parse" and "1" not in e["id"], lambda seg: seg[-1].update(err="", enc=seg[-1]["id"]))
    mut("ToBlockId answer with another seq_no", lambda e: e["k"] == "ToBlockId" and e["out"], lambda seg: seg[-1]["out"].update(seqno=bump(seg[-1]["out"]["seqno"])))
    mut("constructor mismatch logged as accepted", lambda e: e["k"] == "Parents" and e["ctor"] != e["am"], lambda seg: seg[-1].update(dec="", err=""))
    mut("malformed tree logged as decoded", lambda e: e["k"] == "ShardIDs" and e["dec"], lambda seg: seg[-1].update(dec=""))
    if cl:
        st = (ck.states, ck.transitions, ck.traces_ok, ck.evaluations)
        cp = os.path.join(ck.work, "canaries.ndjson")
        allev = [e for _, seg in cl for e in seg]
        vlib.write_ndjson(cp, allev + [{"k": "End", "events": len(allev)}])
        crej, _, _ = validate(ck, cp, "canaries")
        ck.states, ck.transitions, ck.traces_ok, ck.evaluations = st
        pos = 1
        for nm, seg in cl:
            hit = [r for r in crej if r["seg"] == pos]
            # rejected at the altered event (the last of its segment), not before
            ok = bool(hit) and hit[0]["line"] == pos + len(seg) - 1
            if nm.startswith("a block of the chain dropped"):
                ok = bool(hit)
            if nm == "control":
                if hit:
                    raise Infra("canary control segment (untouched, accepted before) was rejected")
            else:
                ck.canary("C->S: " + nm, ok)
            pos += len(seg)
    good = next((e for e in es0 if e["k"] == "Blk" and e["am"] == 1), None)
    if good:
        ck.sample({"direction": "C->S", "event": good})
    return ck.finish(rule=RULE, distinct=len(vecs) + len(distinct))


def replay(ck, path):
    ck.build_vh()
    rp = json.load(open(path))["replay"]
    bad = False
    if rp["kind"] == "vectors":
        vs = rp["vectors"]
        evs, pending, p = xgrow.run_vectors(ck, "X08", vs, "replay")
        bad = bool(pending)
        by = collections.defaultdict(list)
        for e in evs:
            if e["k"] != "Reset":
                by[(e["vec"], e["step"])].append(e)
        for v in vs:
            for i, s in enumerate(v["steps"]):
                why = compare(s, by[(v["vec"], i)])
                if why:
                    print("behaviour %d step %d: %s: %s" % (v["vec"], i, why, json.dumps(by[(v["vec"], i)])[:2000]))
                    bad = True
        rej, notes, _ = validate(ck, os.path.join(ck.work, "replay_out.ndjson.s"), "replay_trace")
    else:
        tp = os.path.join(ck.work, "replay.ndjson")
        ck.run_vh(["drive", "X08", "-out", tp, "-tier", rp["tier"], "-seed", rp["seed"], "-shard", rp["shard"], "-shards", rp["shards"]], check=False)
        es, pend = xgrow.strip(tp, tp + ".s")
        bad = bool(pend)
        rej, notes, _ = validate(ck, tp + ".s", "replay_trace")
    for r in rej:
        print(json.dumps(r["event"])[:2000], notes.get(r["line"]))
        bad = True
    if bad:
        print("VIOLATION property=X08 replay=%s" % path)
        return 1
    print("replayed: accepted")
    return 0
