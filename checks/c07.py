# C07: parsing untrusted bag-of-cells bytes never crashes and yields sound cells (spec/Boc.tla: Parse is the case analysis).
import json, os, copy, re, resource, subprocess
import vlib, cellcommon
from vlib import Infra

RULE = ("S->C: Boc_HdrFuzz (TLC) composes adversarial headers (3 magics x flags x ref width 1..4 x offset width 1..8 x counters from byte patterns up to 2^32-1 x short tails); Boc_Fuzz (TLC) mutates small conforming bags (every truncation, 5..20 substitution values at every byte) and labels "
        "each mutant with the first guard of Boc!Parse it fails; Boc_SemFuzz (TLC) writes conforming containers around exotic cells of every type with every data "
        "length around what the type needs (0..3 references, as root or below a parent, descriptor level bits equal to / different from the stored mask); "
        "all of them are fed to the real parser and to its hex / base64 / single-root entry points, which must agree with it. C->S: truncations, "
        "substitutions, bit flips, multi-byte mutations of own output and of bags harvested from the repository, hand-written "
        "adversarial headers and random bytes; each call runs in a child process under recover with allocation and time measured; "
        "Cells_Trace accepts a Parse event only without panic, within budget, acyclic, <=1023 bits / <=4 refs per cell, with Hash/"
        "ToString/ToBoc terminating on every returned root, and equal to the cells Boc!Parse assigns when the input is conforming. "
        "Non-trivial = input that is not accepted verbatim; distinct = distinct inputs.")


def panic_class(msg):
    m = msg.lower()
    for pat, name in (("index out of range", "index-out-of-range"), ("slice bounds out of range", "slice-bounds"), ("makeslice", "makeslice"),
                      ("nil pointer", "nil-pointer"), ("out of memory", "oom"), ("stack overflow", "stack-overflow"), ("cyclic", "cyclic")):
        if pat in m:
            return name
    return "other"


def drive_with_restart(ck, shard, shards, extra):
    """Run the C07 driver; when the child dies (fatal runtime error, kill by rlimit) attribute the crash to the
    last Begin record and restart after it."""
    tp = os.path.join(ck.work, "trace_%02d.ndjson" % shard)
    parts, skip, crashes = [], 0, []
    for attempt in range(30):
        part = "%s.part%d" % (tp, attempt)
        def lim():
            resource.setrlimit(resource.RLIMIT_AS, (24 << 30, 24 << 30))
        cmd = [ck.vh, "drive", "C07", "-out", part, "-tier", ck.tier, "-seed", str(ck.seed), "-shard", str(shard), "-shards", str(shards),
               "-part", str(skip)] + extra
        p = subprocess.run(cmd, cwd=ck.work, env=dict(vlib.GOENV, GOMEMLIMIT="6GiB"), stdout=subprocess.PIPE, stderr=subprocess.STDOUT, text=True, preexec_fn=lim, timeout=3000)
        lines = open(part).read().splitlines() if os.path.exists(part) else []
        parts.append(lines)
        if p.returncode == 0 and lines and json.loads(lines[-1]).get("k") == "End":
            break
        # died: the last complete Begin without a Parse after it is the culprit
        last = None
        for l in reversed(lines):
            try:
                e = json.loads(l)
            except Exception:
                continue
            last = e
            break
        if last and last.get("k") == "Abort":       # the driver gave up on an input whose post-processing did not return (recorded as timeout)
            skip = last["i"] + 1
            continue
        if not last or last.get("k") != "Begin":
            raise Infra("C07 driver died without a Begin record (rc=%d): %s" % (p.returncode, p.stdout[-2000:]))
        crashes.append({"k": "Crash", "i": last["i"], "class": last["class"], "boc": last["boc"], "why": p.stdout[-600:]})
        skip = last["i"] + 1
    else:
        raise Infra("C07 driver keeps dying")
    with open(tp, "w") as f:
        n = 0
        for lines in parts:
            for l in lines:
                try:
                    e = json.loads(l)
                except Exception:
                    continue
                if e.get("k") in ("Parse",):
                    f.write(l + "\n"); n += 1
        for c in crashes:
            f.write(json.dumps(c) + "\n"); n += 1
        f.write(json.dumps({"k": "End", "events": n}) + "\n")
    return tp


def run(ck):
    ck.assumptions += ["TLC 1.8.0, CommunityModules", "Prim (Sha256, Crc32c, converters)",
                       "budgets: allocation <= 64 x input + 2 MiB, time <= 2 s + input/64 ms per call (generous linear bounds)",
                       "accepting a non-conforming bag is not a violation by itself; only unsound results, crashes, or different cells for a conforming bag are"]
    ck.build_vh()
    # ---- S->C: spec-generated mutants with guard labels
    cfg = "gen/Boc_Fuzz_full.cfg" if ck.thorough else "gen/Boc_Fuzz_quick.cfg"
    res = ck.tlc_or_infra("Boc_Fuzz", cfg, workers=8, timeout=2400, name="boc_fuzz", heap_gb=8)
    muts = res.vecs()
    # adversarial headers: every magic / flag combination / width with counters from byte patterns
    hres = ck.tlc_or_infra("Boc_HdrFuzz", "gen/Boc_HdrFuzz_full.cfg" if ck.thorough else "gen/Boc_HdrFuzz_quick.cfg", workers=8, timeout=2400, name="boc_hdrfuzz", heap_gb=8)
    hdrs = hres.vecs()
    if len(hdrs) < 1000:
        raise Infra("Boc_HdrFuzz produced only %d headers" % len(hdrs))
    ck.extra["spec_headers"] = len(hdrs)
    # conforming containers around ill-formed exotic cells (every type x every data length around what it needs)
    sres = ck.tlc_or_infra("Boc_SemFuzz", "gen/Boc_SemFuzz_full.cfg" if ck.thorough else "gen/Boc_SemFuzz_quick.cfg", workers=4, timeout=1200, name="boc_semfuzz", heap_gb=3)
    sems = sres.vecs()
    if len(sems) < 3000:
        raise Infra("Boc_SemFuzz produced only %d bags" % len(sems))
    ck.extra["spec_exotic_bags"] = len(sems)
    muts = muts + hdrs + sems
    guards = {}
    for m in muts:
        guards[m["guard"]] = guards.get(m["guard"], 0) + 1
    if len(guards) < 20:
        raise Infra("Boc_Fuzz exercised only %d guards of Boc!Parse" % len(guards))
    ck.extra["spec_mutants"] = len(muts)
    ck.extra["guards_exercised"] = guards
    mp = os.path.join(ck.work, "mutants.ndjson")
    vlib.write_ndjson(mp, muts)
    ck.sample({"direction": "S->C", "mutants": muts[:3]})
    # ---- drive (spec mutants + own mutations), with crash containment
    shards = vlib.NCPU
    traces = vlib.parallel(lambda i: drive_with_restart(ck, i, shards, ["-in", mp]), range(shards))
    def val(tp):
        return ck.validate_events("Cells_Trace", "trace/Cells_Trace.cfg", tp, timeout=3000, name="trace_" + os.path.basename(tp)[6:8], heap_gb=3)
    inputs = set()
    accepted = 0
    for tp, (res, rejected) in zip(traces, vlib.parallel(val, traces, n=8)):
        notes = cellcommon.notes_by_line(res)
        for rj in rejected:
            e = rj["event"]
            if e["k"] == "Crash":
                ck.report("C07:crash:" + panic_class(e["why"]), "the process died (fatal runtime error) while parsing / hashing this input: " + e["why"][-300:],
                          {"kind": "input", "boc": e["boc"], "class": e["class"]})
                continue
            note = [n for n in notes.get(rj["line"], []) if n and n[0] == "parse"]
            what = note[0][1] if note else "?"
            if what == "panic":
                site = "parse" if e["panic"].startswith("parse") else "post"
                key = "C07:panic:%s:%s" % (site, panic_class(e["panic"]))
                msg = "panic in DeserializeBoc: " + e["panic"]
            elif what == "post" and e["post"] == "timeout":
                key = "C07:post-timeout"
                msg = "Hash/ToString/ToBoc on a returned root did not return within the allowance"
            elif what == "post":
                key = "C07:post-panic:" + panic_class(e["post"])
                msg = "Hash/ToString/ToBoc on a returned root panicked: " + e["post"]
            elif what == "helpers" and e.get("hpanic"):
                key = "C07:panic:helper:" + e["hpanic"].split(":")[0]
                msg = "panic in a convenience entry point over the parser: " + e["hpanic"]
            elif what == "helpers":
                key = "C07:helpers:verdict-differs"
                msg = "the hex / base64 / single-root entry points disagree with DeserializeBoc (roots=%s helpers=%s)" % (e.get("nroots"), e.get("helpers"))
            elif what == "acyclic":
                key = "C07:cyclic-result"
                msg = "the parser returned a cell that (transitively) references itself"
            else:
                key = "C07:%s" % what
                msg = "Parse event rejected by clause '%s' (alloc_kb=%s ms=%s)" % (what, e.get("alloc_kb"), e.get("ms"))
            ck.report(key, msg + " [input class %s, %d bytes]" % (e.get("class"), len(e["boc"]) // 2), {"kind": "input", "boc": e["boc"], "class": e.get("class"), "clause": what})
        for l in open(tp):
            e = json.loads(l)
            if e.get("k") == "Parse":
                inputs.add(e["boc"])
                accepted += 1 if e["ok"] else 0
    ck.extra["inputs"] = len(inputs)
    ck.extra["accepted_by_parser"] = accepted
    evs = vlib.read_ndjson(traces[0])
    okev = next(e for e in evs if e.get("k") == "Parse" and e["ok"] and len(e["cells"]) >= 2 and e["class"] in ("valid", "specgen:accepted"))
    ck.sample({"direction": "C->S", "event": cellcommon.slim(okev)})
    # canaries: a recorded panic, a cyclic result, an unsound cell, a wrong root hash must each be rejected
    c1 = copy.deepcopy(okev); c1["panic"] = "parse: runtime error: index out of range"; c1["ok"] = False
    c2 = copy.deepcopy(okev); c2["cyclic"] = True
    c3 = copy.deepcopy(okev); c3["cells"][0]["r"] = [1, 1, 1, 1, 1]
    c4 = copy.deepcopy(okev); c4["roothashes"] = [h[:-1] + ("0" if h[-1] != "0" else "1") for h in c4["roothashes"]]
    c5 = copy.deepcopy(okev); c5["alloc_kb"] = 1 << 22
    p = os.path.join(ck.work, "canary.ndjson")
    vlib.write_ndjson(p, [c1, c2, c3, c4, c5, okev, {"k": "Crash", "i": 0, "class": "x", "boc": "00", "why": "fatal error: stack overflow"}, {"k": "End"}])
    st = (ck.states, ck.transitions, ck.traces_ok, ck.evaluations)
    _, rej = ck.validate_events("Cells_Trace", "trace/Cells_Trace.cfg", p, name="canary")
    ck.states, ck.transitions, ck.traces_ok, ck.evaluations = st
    ck.canary("C->S: panic / cyclic / 5 refs / wrong hash / over budget / crash rejected, original accepted", [r["line"] for r in rej] == [1, 2, 3, 4, 5, 7])
    return ck.finish(rule=RULE, distinct=len(inputs) - 1)


def replay(ck, path):
    """Feed the stored input to the current tree's parser in a child process."""
    ck.build_vh()
    rp = json.load(open(path))["replay"]
    mp = os.path.join(ck.work, "one.ndjson")
    vlib.write_ndjson(mp, [{"boc": rp["boc"], "guard": "replay"}])
    tp = drive_one(ck, mp)
    _, rej = ck.validate_events("Cells_Trace", "trace/Cells_Trace.cfg", tp, name="replay")
    for r in rej:
        print(json.dumps(cellcommon.slim(r["event"])))
    if rej:
        print("VIOLATION property=C07 replay=%s" % path)
        return 1
    return 0


def drive_one(ck, mp):
    # only the spec-generated part (shard 1 of 1 takes every line where ln % 1 == 0); own mutations are still produced but harmless
    return drive_with_restart(ck, 0, 1, ["-in", mp])
