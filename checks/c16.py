# C16: message and transaction identity hashes match their source cells (spec/MsgHash.tla).
import json, os, copy, hashlib, collections, time
import vlib
from vlib import Infra, log

RULE = ("S->C: TLC enumerates the message-shape case analysis of MsgHash_Gen (kind x init none/inline/ref x body inline/ref x "
        "source kind x destination kind x anycast x fee class x body variant: 720 cases) and the pairs of external-in cases with the "
        "relation MsgHash!CaseRelation requires between their normalised hashes (quick: the 2880 pairs that differ in exactly one "
        "coordinate, a seeded half of them replayed; thorough: all 165600 enumerated, every 'equal'/'free' pair and a seeded sample of "
        "the 'differ' pairs replayed). Every case is emitted as the cell tree MsgHash!EncMsg lays out for it (the specification's own "
        "layout, checked by TLC to read back through MsgHash!MsgParse); the Go harness only turns the table into cells, decodes without "
        "and with a caching hasher and records Hash(false)/Hash(true) with the source cells; MsgHash_Trace re-derives shape, identity "
        "hash, the canonical external-in cell (TEP-467) and the pair relation from the cells and requires the reports to agree; the "
        "library's own encoder is exercised on every decoded message (Build events: must encode, decode again, reproduce the source cell). "
        "C->S: random messages of the three kinds laid out by the harness's bit-level encoder (addr_std/addr_var, anycast depth 1..30, "
        "extern sources, multi-cell and library-cell bodies), random one-respect mutations of external-in messages, and every "
        "transaction / in_msg / out_msgs entry of the real blocks in tlb/testdata plus the same records where in_msg_descr / "
        "out_msg_descr hold them (source cell captured position by position from a separate raw decode; in_msg and out_msgs located by "
        "the specification inside the transaction's cell table; SourceBoc parsed by Boc!Parse). A refusal of the library to decode or "
        "re-encode a message the specification reads is a rejected event (keys C16:decode:*, C16:build:*), never an infrastructure "
        "error. Every other message is decoded into two Message variables that live across the whole run (Hash asked of the variable "
        "itself, judged by the cell it holds now); a value is given another message's info/body after a Hash(true) (Norm events). "
        "Transactions of the blocks are also recorded inside Merkle proofs with the bodies of their messages pruned (cells of "
        "non-zero level; decoded without a hasher, with one, and a second time by the same caching decoder) and rebuilt around an "
        "in_msg body of N cells so that the transaction has exactly 255 / 256 / 257 (thorough: also 65535..65537) distinct cells. "
        "SourceBoc is asked twice of every transaction, the bytes returned first being overwritten in between; messages holding a "
        "library cell are also decoded through NewDecoder().WithLibraryResolver; the reused-variable decodes and the transactions of "
        "the proof / rebuilt records go through the package-level tlb.Unmarshal on ONE boc.Cell variable whose content changes. "
        "MsgHash_Gen also builds, from the cell definitions, messages whose body / init holds exotic subtrees (Merkle proof over a partly "
        "pruned tree, a cell X next to a proof in which X is pruned, Merkle update, library cell, pruned branch; by reference, inline, "
        "nested deeper; pruned branches with the multi-bit level masks 3, 5, 6, 7 carrying the stored hashes of a tree that is itself "
        "partly pruned) and a minimal transaction around each, and hands them over as bags written by Boc!Write. The entries of the "
        "public accessor Block.AllTransactions() are set one to one (both ordered by lt, account) against the transaction cells of "
        "the block's tree and judged like the records of account_blocks. "
        "Multi-step part (MsgHashSeq.tla): decoding as a state machine over (source cell, destination value); TLC enumerates every "
        "behaviour of 2 (thorough: 3) decodes over 2 cells x 2 values x {package-level Unmarshal, caching decoder}; the harness replays "
        "each on message cells and on transaction cells WITHOUT ever rewinding a cell or clearing a value and observes every value "
        "after every step (Hash, normalised hash, SourceBoc, fields); plus random longer sessions; MsgHash_SeqTrace accepts a recording "
        "only as a behaviour of MsgHashSeq in which every observer reports what MsgHash derives from the cell decoded last. "
        "distinct = distinct source cell tables judged.")

NSHARD_GEN = 8


def coarse(cl, addr=True):
    """input class of a message event, coarse enough to be a stable key: kind[:addr_var][:anycast][:body-is-library-cell][:var-reused]"""
    parts = (cl or "?").split(":")
    if len(parts) >= 3 and parts[1] == "exotic":                    # <kind>:exotic:<which exotic subtree, where>
        return ":".join(parts[:3])
    out = [parts[0]]
    if addr and ("src=var" in parts or "dest=var" in parts):      # the address dimensions matter where the destination is re-encoded
        out.append("addr_var")
    if addr and "anycast" in parts:
        out.append("anycast")
    if "body-is-library-cell" in parts:
        out.append("body-is-library-cell")
    if "var-reused" in parts:
        out.append("var-reused")
    return ":".join(out)


def key_of(e, note):
    k = e.get("k")
    if k == "Msg":
        return "C16:%s:%s" % (note, coarse(e.get("class"), addr=note in ("norm", "norm-cached")))
    if k == "Build":
        return "C16:build:%s" % coarse(e.get("class"))
    if k == "Norm":
        return "C16:norm-after-assign:%s" % (e.get("class") or "?").split(":")[0]
    if k == "Decode":
        return "C16:decode:%s" % coarse(e.get("class"))
    if k == "Pair":
        var = "addr_var" if "var" in (e.get("adest"), e.get("bdest")) else "addr_std"
        if note in ("norm-a", "norm-b"):        # one side's normalised hash is not the canonical re-encoding's
            return "C16:pair:norm:%s" % var
        return "C16:pair:%s:%s:%s" % (note, e.get("why"), var)
    if k == "Tx":
        return "C16:tx:%s:%s" % (note, e.get("pos"))
    if k == "MsgAt":
        return "C16:descr-msg:%s:%s" % (note, e.get("pos"))
    return "C16:%s" % k


def slim(e, n=6000):
    s = json.dumps(e)
    return e if len(s) <= n else {"k": e.get("k"), "truncated": s[:n]}


def reexec_of(e):
    """the vector with which `vh replay C16` re-executes a recorded event against the current tree"""
    k = e.get("k")
    if k in ("Msg", "Build", "Decode"):
        return {"k": "boc", "class": e.get("class", ""), "boc": e["boc"], "prev": e.get("prev", "")}
    if k == "Norm":
        return None        # re-recorded by a run of the check (needs the pair it rode on)
    if k == "Pair":
        return {"k": "pairboc", "class": e.get("why", ""), "exp": e["exp"], "boc": e["a"]["boc"], "bocb": e["b"]["boc"]}
    if k == "Tx" and e.get("src") == "spec":
        return {"k": "xtx", "name": e["pos"].split(":", 1)[1], "kind": "", "boc": e["srcboc"]}
    if k == "Tx":
        return {"k": "blockrec", "src": e["src"], "pos": e["pos"], "rec": "%s:%s" % (e["acc"], e["lt"])}
    if k == "MsgAt":
        return {"k": "blockrec", "src": e["src"], "pos": e["pos"], "rec": e["key"]}
    return None


# notes that mean "the concretisation is not what the case demands / the spec cannot read the cell": not a C16 verdict
NOT_A_VERDICT = {"shape", "declared", "pair-parse", "msg-parse", "tx-parse", "out-dict", "descr-key", "tx-binding"}


def merge(ck, traces, k, name):
    """concatenate the shard traces into k files (one JVM per file)"""
    out = []
    for i in range(k):
        part = traces[i::k]
        if not part:
            continue
        mp = os.path.join(ck.work, "%s_%02d.ndjson" % (name, i))
        n = 0
        with open(mp, "w") as f:
            for tp in part:
                vlib.lint_trace(open(tp).read().splitlines(), tp)
                for l in open(tp):
                    if '"k":"End"' in l and json.loads(l).get("k") == "End":
                        continue
                    f.write(l)
                    n += 1
            f.write(json.dumps({"k": "End", "events": n}) + "\n")
        out.append(mp)
    return out


def judge(ck, traces, par=8):
    """validate the trace files in parallel; report violations"""
    def val(tp):
        return ck.validate_events("MsgHash_Trace", "trace/MsgHash_Trace.cfg", tp, timeout=2400, name="trace_" + os.path.basename(tp)[:-7], heap_gb=6 if ck.thorough else 3)
    anyc = collections.Counter()
    nrej = 0
    for tp, (res, rejected) in zip(traces, vlib.parallel(val, traces, n=par)):
        what = "S->C" if os.path.basename(tp).startswith("jgen") else "C->S"
        notes = {}
        for t in res.tuples("NOTE"):
            if isinstance(t[2], str) and t[2].startswith("anycast-"):
                anyc[t[2]] += 1
            else:
                notes.setdefault(t[1], t[2])
        for rj in rejected:
            e = rj["event"]
            note = notes.get(rj["line"], "?")
            nrej += 1
            if e.get("k") == "BuildErr":
                raise Infra("%s: the harness could not build / decode a message (%s): %s" % (what, e.get("class"), e.get("err")))
            if e.get("k") == "Count":
                ck.report("C16:tx:count:" + e.get("pos", "?"), "%s of %s hands out %s / %s entries, the block's tree holds %s transaction cells" % (
                    e.get("pos"), e.get("src"), e.get("entries"), e.get("entries_cached"), e.get("cells_in_tree")), {"kind": "event", "event": e})
                continue
            if e.get("k") == "Panic":
                if str(e.get("panic", "")).startswith("panic:"):
                    ck.report("C16:panic:" + e.get("src", "?"), "panic while decoding / hashing records of a real block: " + e["panic"], {"kind": "event", "event": e})
                    continue
                raise Infra("%s: driver failed on %s: %s" % (what, e.get("src"), e.get("panic")))
            # an accessor entry that names another transaction than the cell at its place is a verdict about the accessor
            accessor = e.get("k") == "Tx" and e.get("pos") == "Block.AllTransactions" and note == "tx-binding"
            if (note in NOT_A_VERDICT or note == "?") and not accessor:
                raise Infra("%s: event %d of %s is not judgeable (%s): the recorded cells do not have the demanded shape / cannot be read "
                            "by MsgHash (encoder or harness problem, not a C16 verdict): %s" % (what, rj["line"], tp, note, json.dumps(slim(e, 1500))))
            ck.report(key_of(e, note), "%s: check '%s' of MsgHash_Trace fails: the library's report differs from what the specification derives "
                      "from the source cells. Reported: %s" % (e.get("class") or e.get("why") or e.get("pos"), note,
                                                               json.dumps({k: v for k, v in e.items() if k in ("h", "hc", "hn", "hnc", "exp", "acc", "lt", "key", "src", "enc", "dec", "err", "stage")})),
                      {"kind": "event", "note": note, "reexec": reexec_of(e), "event": slim(e, 20000)})
    return anyc, nrej


def samples(r):
    """field values for MsgHash_Gen (inputs only: every layout is the specification's). Trees are {"b": bits, "c": [children]}."""
    def bits(n):
        return "".join(r.choice("01") for _ in range(n))

    def node(nb, kids=()):
        return {"b": bits(nb), "c": list(kids)}

    def byts(n):                       # an amount as whole bytes without a leading zero byte
        b = bits(8 * n)
        return b if n == 0 or "1" in b[:8] else "1" + b[1:]

    def anyc():
        d = r.choice([1, 30, r.randint(1, 30), r.randint(1, 30)])
        return {"d": d, "pfx": bits(d)}

    def si_bits(code, data):           # split_depth:(Maybe (## 5)) special:(Maybe TickTock) code data library (empty)
        return (("1" + bits(5)) if r.random() < .5 else "0") + (("1" + bits(2)) if r.random() < .5 else "0") + \
               ("1" if code else "0") + ("1" if data else "0") + "0"
    std = [{"wc": str(r.choice([0, -1, 127, -128, r.randint(-128, 127)])), "addr": bits(256), "any": anyc()} for _ in range(3)]
    var = [{"wc": str(r.choice([0, -1, 2 ** 31 - 1, -2 ** 31, r.randint(-2 ** 31, 2 ** 31 - 1)])),
            "addr": bits(r.choice([1, 8, 64, 96, r.randint(1, 96)])), "any": anyc()} for _ in range(3)]
    return {"std": std, "var": var, "ext": bits(r.randint(0, 96)), "fee": byts(r.randint(1, 15)), "fwd": byts(r.randint(1, 7)),
            "flags": bits(3), "value": byts(r.randint(0, 7)), "ihr": byts(r.randint(0, 5)), "lt": bits(64), "at": bits(32),
            "si_inline": {"b": si_bits(True, True), "c": [node(r.randint(0, 300)), node(r.randint(0, 300), [node(9)])]},
            "si_ref": {"b": si_bits(True, False), "c": [node(r.randint(0, 1023), [node(3), node(1023)])]},
            "bodies": [node(0), node(r.randint(1, 160)),
                       node(r.randint(0, 160), [node(r.randint(0, 1023), [node(77)]), node(500)])]}


def gen_vectors(ck):
    base = open(os.path.join(vlib.SPEC, "gen/MsgHash_Gen.cfg")).read()
    sp = os.path.join(ck.work, "samples.ndjson")
    vlib.write_ndjson(sp, [samples(ck.rng)])

    def gen(part):
        p = os.path.join(ck.work, "MsgHash_Gen_%s.cfg" % part)
        mode = "all" if ck.thorough else "near"
        open(p, "w").write(base.replace('Part = "case"', 'Part = "%s"' % part).replace('Mode = "near"', 'Mode = "%s"' % mode))
        res = ck.tlc_or_infra("MsgHash_Gen", os.path.relpath(p, vlib.SPEC), files={"samples.ndjson": sp}, workers=4 if part == "pair" else 2,
                              timeout=1200, name="gen_" + part, heap_gb=4)
        return res.vecs()
    cases, rest, exotic = vlib.parallel(gen, ["case", "pair", "exotic"], n=3)
    if sorted(v["k"] for v in exotic) != ["xmsg"] * 15 + ["xtx"] * 15:
        raise Infra("MsgHash_Gen part exotic produced %d vectors, expected 15 messages and 15 transactions" % len(exotic))
    ck.extra["gen_exotic_subtree_bags"] = sorted(set(v["name"] for v in exotic))
    msgs = [v for v in rest if v["k"] == "msg"]
    pairs = [v for v in rest if v["k"] == "pair"]
    if len(cases) != 720:
        raise Infra("MsgHash_Gen produced %d cases, expected 720" % len(cases))
    want = 165600 if ck.thorough else 2880
    if len(pairs) != want or sorted(m["id"] for m in msgs) != list(range(1, 577)):
        raise Infra("MsgHash_Gen produced %d pairs over %d messages, expected %d over 576" % (len(pairs), len(msgs), want))
    rel = collections.Counter(p["exp"] for p in pairs)
    if set(rel) != {"equal", "differ", "free"}:
        raise Infra("pair relation classes incomplete: %s" % dict(rel))
    shapes = set((c["c"]["kind"], c["c"]["init"], c["c"]["body"], c["c"]["src"], c["c"]["dest"], c["c"]["any"], c["c"]["fee"]) for c in cases)
    if len(shapes) != 240:
        raise Infra("case analysis incomplete: %d shapes" % len(shapes))
    ck.extra["gen_cases"] = len(cases)
    ck.extra["gen_extin_messages"] = len(msgs)
    ck.extra["gen_pairs_enumerated"] = dict(rel)
    if ck.thorough:
        diff = [p for p in pairs if p["exp"] == "differ"]
        keep = [p for p in pairs if p["exp"] != "differ"]
        ck.rng.shuffle(diff)
        pairs = keep + diff[:26000]
    else:
        # quick tier: TLC enumerates (and MsgHash!CaseRelation classifies) every one-coordinate pair; a seeded half is replayed
        ck.rng.shuffle(pairs)
        pairs = pairs[:1440]
    vecs = exotic + cases + pairs
    for i, v in enumerate(msgs + vecs):
        v["vec"] = i
    ck.extra["gen_pairs_replayed"] = dict(collections.Counter(p["exp"] for p in pairs))
    return msgs, vecs


def replay_vectors(ck, msgs, vecs, name, shards):
    """every shard file defines all external-in messages (pairs refer to them by index); shard 0 also records them as events"""
    def one(i):
        vp, rp = os.path.join(ck.work, "%s_%02d.vec.json" % (name, i)), os.path.join(ck.work, "%s_%02d.ndjson" % (name, i))
        part = [dict(m, emit=(i == 0)) for m in msgs] + vecs[i::shards]
        vlib.write_ndjson(vp, part)
        ck.run_vh(["replay", "C16", "-in", vp, "-out", rp, "-seed", ck.seed])
        out = vlib.read_ndjson(rp)
        if not out or out[-1].get("k") != "End" or out[-1]["events"] != len(part):
            raise Infra("replay of %s shard %d did not finish" % (name, i))
        return rp
    return vlib.parallel(one, range(shards))


def stats(traces):
    c = collections.Counter()
    distinct = set()
    cells = 0
    for tp in traces:
        for l in open(tp):
            e = json.loads(l)
            k = e.get("k")
            if k in ("Msg", "Tx", "MsgAt"):
                c[k + (":" + e["src"] if "src" in e else "")] += 1
                distinct.add(hashlib.md5(json.dumps(e["cells"]).encode()).hexdigest())
                cells += len(e["cells"])
                if k == "Tx" and e["pos"] == "Block.AllTransactions":
                    c["Tx-Block.AllTransactions"] += 1
                if k == "Tx" and e["pos"].startswith("exotic:"):
                    c["Tx-exotic"] += 1
                if k == "Msg" and ":exotic:" in e["class"]:
                    c["Msg-exotic"] += 1
                if k == "Tx" and (e["pos"].startswith("proof:") or e["pos"].startswith("rebuilt:")):
                    c["Tx-" + e["pos"]] += 1
                if k == "Msg" and e["class"].endswith(":var-reused"):
                    c["Msg:var-reused"] += 1
                if k == "Tx" and e.get("full"):
                    c["tx_out_msgs:" + e["src"]] += len(e["om"])
                    c["tx_in_msgs:" + e["src"]] += 1 if e["im"]["p"] else 0
            elif k in ("Build", "Decode", "Norm"):
                c[k] += 1
            elif k == "Pair":
                c["Pair:" + e["exp"]] += 1
                c["Pair-why:" + e.get("why", "?")] += 1
                distinct.add(hashlib.md5(json.dumps([e["a"]["cells"], e["b"]["cells"]]).encode()).hexdigest())
            elif k == "End":
                c["tx_positions_seen"] += e.get("tx_positions_seen", 0) if tp.endswith("_00.ndjson") else 0
    return c, distinct, cells


def flip(h):
    return h[:-1] + ("0" if h[-1] != "0" else "1")


# ---------------------------------------------------------------- sessions (spec/MsgHashSeq.tla)
def session_key(rj, note):
    """input class of a rejected session line: what had happened to the cell / the destination value before"""
    seg = rj["segment"]
    kind = seg[0].get("kind", "?")
    reads, writes = collections.Counter(), collections.Counter()
    for e in seg[1:rj["accepted"]]:
        if e.get("k") == "Decode":
            reads[e["c"]] += 1
            writes[e["d"]] += 1
    e = rj["event"]
    if e.get("k") == "Decode":
        cl = ("cell-decoded-before" if reads[e["c"]] else "fresh-cell") + "+" + ("value-reused" if writes[e["d"]] else "fresh-value")
        return "C16:session:%s:%s:%s" % (kind, note, cl)
    if e.get("k") == "Obs":
        return "C16:session:%s:%s:%s" % (kind, note, "value-reused" if writes[e["d"]] > 1 else "value-decoded-once")
    return "C16:session:%s:%s" % (kind, e.get("k"))


def sessions(ck):
    """S->C: every behaviour of MsgHashSeq_Gen replayed on real cells and variables; C->S: random longer sessions; both validated
    line by line as behaviours of MsgHashSeq by MsgHash_SeqTrace."""
    depth = 3 if ck.thorough else 2
    cfg = open(os.path.join(vlib.SPEC, "gen/MsgHashSeq_Gen.cfg")).read().replace("Depth = 2", "Depth = %d" % depth)
    cp = os.path.join(ck.work, "MsgHashSeq_Gen.cfg")
    open(cp, "w").write(cfg)
    res = ck.tlc_or_infra("MsgHashSeq_Gen", os.path.relpath(cp, vlib.SPEC), workers=2, timeout=900, name="gen_sessions", heap_gb=2)
    vecs = res.vecs()
    if len(vecs) != 8 ** depth:
        raise Infra("MsgHashSeq_Gen produced %d behaviours, expected %d" % (len(vecs), 8 ** depth))
    for i, v in enumerate(vecs):
        v["vec"] = i
    nsh = 8 if ck.thorough else 2

    def rep(i):
        vp, rp = os.path.join(ck.work, "sess_gen_%02d.vec.json" % i), os.path.join(ck.work, "sess_gen_%02d.ndjson" % i)
        part = vecs[i::nsh]
        vlib.write_ndjson(vp, part)
        ck.run_vh(["replay", "C16", "-part", "sessions", "-in", vp, "-out", rp, "-seed", ck.seed])
        out = vlib.read_ndjson(rp)
        if not out or out[-1].get("k") != "End" or out[-1]["events"] != len(part):
            raise Infra("replay of the session behaviours (shard %d) did not finish" % i)
        return rp

    def drv(i):
        tp = os.path.join(ck.work, "sess_drive_%02d.ndjson" % i)
        ck.run_vh(["drive", "C16", "-part", "sessions", "-out", tp, "-tier", ck.tier, "-seed", ck.seed, "-shard", i, "-shards", nsh])
        return tp
    traces = vlib.parallel(lambda f: f[0](f[1]), [(rep, i) for i in range(nsh)] + [(drv, i) for i in range(nsh)], n=2 * nsh)
    files = merge(ck, traces, nsh, "jsess")

    def val(tp):
        return ck.validate_segments("MsgHash_SeqTrace", "trace/MsgHash_SeqTrace.cfg", tp, timeout=1800, name="sess_" + os.path.basename(tp)[:-7], heap_gb=3)
    nseg = nobs = 0
    for tp, (res, rejected) in zip(files, vlib.parallel(val, files, n=nsh)):
        notes = {t[1]: t[2] for t in res.tuples("NOTE")}
        for rj in rejected:
            e = rj["event"]
            note = notes.get(rj["line"], e.get("k", "?"))
            if note == "source-readable":
                raise Infra("session line %d of %s: MsgHash cannot read the source cell (harness problem, not a C16 verdict)" % (rj["line"], tp))
            seg = rj["segment"]
            ck.report(session_key(rj, note), "session over %s cells (%s): line %d of the segment is not a step of MsgHashSeq: %s. Steps so far: %s; "
                      "rejected: %s" % (seg[0].get("kind"), seg[0].get("origin"), rj["accepted"], note,
                                        json.dumps([{k: x for k, x in y.items() if k in ("k", "c", "d", "dec")} for y in seg[1:rj["accepted"]] if y.get("k") == "Decode"]),
                                        json.dumps({k: x for k, x in e.items() if k not in ("src",)})[:400]),
                      {"kind": "session", "note": note, "segment": [slim(x, 8000) for x in seg[:rj["accepted"] + 1]]})
        for l in open(tp):
            nseg += '"k":"Reset"' in l
            nobs += '"k":"Obs"' in l
    ck.extra["session_behaviours_generated"] = len(vecs)
    ck.extra["session_segments_validated"] = nseg
    ck.extra["session_observations"] = nobs
    if nobs < 100:
        raise Infra("too few session observations recorded: %d" % nobs)
    # canaries: an observation of the second decode altered / a refused decode claimed / a source bag altered
    evs = vlib.read_ndjson(files[0])[:-1]
    starts = [i for i, e in enumerate(evs) if e["k"] == "Reset"] + [len(evs)]
    segs = [evs[a:b] for a, b in zip(starts, starts[1:])]
    sm = next(s_ for s_ in segs if s_[0]["kind"] == "msg" and sum(e["k"] == "Decode" for e in s_) >= 2)
    st = next(s_ for s_ in segs if s_[0]["kind"] == "tx" and sum(e["k"] == "Decode" for e in s_) >= 2)
    c1 = copy.deepcopy(sm); i1 = max(i for i, e in enumerate(c1) if e["k"] == "Obs"); c1[i1]["h"] = flip(c1[i1]["h"])
    c2 = copy.deepcopy(sm); i2 = max(i for i, e in enumerate(c2) if e["k"] == "Decode"); c2[i2]["err"] = "e"
    c3 = copy.deepcopy(st); i3 = max(i for i, e in enumerate(c3) if e["k"] == "Obs"); c3[i3]["src"] = c3[i3]["src"][:-1] + ("0" if c3[i3]["src"][-1] != "0" else "1")
    # the value is said to hold the OTHER cell's hash (what a stale destination would report)
    c4 = copy.deepcopy(st)
    obs = [i for i, e in enumerate(c4) if e["k"] == "Obs"]
    other = next((c4[i]["h"] for i in obs if c4[i]["h"] != c4[obs[-1]]["h"]), flip(c4[obs[-1]]["h"]))
    c4[obs[-1]]["h"] = other
    p = os.path.join(ck.work, "canary_sessions.ndjson")
    vlib.write_ndjson(p, c1 + c2 + c3 + c4 + sm + st + [{"k": "End"}])
    keep = (ck.states, ck.transitions, ck.traces_ok, ck.evaluations)
    _, rej = ck.validate_segments("MsgHash_SeqTrace", "trace/MsgHash_SeqTrace.cfg", p, name="canary_sessions")
    ck.states, ck.transitions, ck.traces_ok, ck.evaluations = keep
    o1, o2, o3, o4 = 0, len(c1), len(c1) + len(c2), len(c1) + len(c2) + len(c3)
    want = [o1 + i1 + 1, o2 + i2 + 1, o3 + i3 + 1, o4 + obs[-1] + 1]
    ck.canary("sessions: observed hash changed / a decode reported as refused / source bag changed / value reports another cell's hash -> "
              "each segment rejected at that line, the unmodified segments accepted", [r["line"] for r in rej] == want)


def run(ck):
    ck.assumptions += ["TLC + CommunityModules Json", "Prim!Sha256 / Crc32c (JDK) and converters; every layout (message header, canonical cell, "
                       "hashmap labels, cell representation, BoC) is TLA+", "SHA-256 collision freedom (for 'must differ')",
                       "anycast: the anycast-free destination is the canonical form; for a destination that carries an anycast prefix the verbatim "
                       "destination is admitted as well (TEP-467 lists src, import_fee, init, body only) - which one the library uses is a note",
                       "Hash(true) is asked of a copy of the decoded message (it clears the anycast flag in place - outside the statement)",
                       "source cells of block records come from a raw decode of a separate parse (library's generic Hashmap walker, no hashes)",
                       "level masks of recorded cells are derived from structure (Cells!WithMasks)"]
    ck.build_vh()
    # S->C (generate, concretise) and C->S (record) run side by side; then every trace is judged by MsgHash_Trace
    shards = vlib.NCPU if ck.thorough else 8
    njvm = 8 if ck.thorough else 4

    def s2c():
        msgs, vecs = gen_vectors(ck)
        gtraces = replay_vectors(ck, msgs, vecs, "gen", NSHARD_GEN if not ck.thorough else vlib.NCPU)
        return vecs, gtraces, merge(ck, gtraces, njvm, "jgen")

    def c2s():
        def drive(i):
            tp = os.path.join(ck.work, "drive_%02d.ndjson" % i)
            ck.run_vh(["drive", "C16", "-out", tp, "-tier", ck.tier, "-seed", ck.seed, "-shard", i, "-shards", shards], timeout=1800)
            return tp
        traces = vlib.parallel(drive, range(shards))
        return None, traces, merge(ck, traces, njvm, "jdrive")
    log("built harness at %.1fs" % (time.time() - ck.t0))
    (vecs, gtraces, jg), (_, traces, jd), _ = vlib.parallel(lambda f: f(), [s2c, c2s, lambda: (sessions(ck), None, None)], n=3)
    log("vectors generated and concretised, traces recorded at %.1fs" % (time.time() - ck.t0))
    anyc, _ = judge(ck, jg + jd, par=vlib.NCPU)
    log("traces judged at %.1fs" % (time.time() - ck.t0))
    gs, gdistinct, _ = stats(gtraces)
    sc = next(v for v in vecs if v["k"] == "case")
    ck.sample({"direction": "S->C", "case": sc["c"], "cells": sc["cells"][:2], "pair": next(v for v in vecs if v["k"] == "pair" and v["exp"] == "free")})
    ds, ddistinct, ncells = stats(traces)
    ck.extra["recorded"] = {k: v for k, v in sorted(ds.items())}
    ck.extra["cells_judged"] = ncells
    ck.extra["generated"] = {k: v for k, v in sorted(gs.items())}
    blocks = sorted(set(k.split(":")[1] for k in ds if k.startswith("Tx:")))
    ck.extra["blocks_with_transactions"] = blocks
    if not any(k.startswith("Tx:") for k in ds) or not any(k.startswith("MsgAt:") for k in ds):
        raise Infra("no real-block records were judged")
    if ds["Tx-proof:account_blocks"] < 5 or any(ds["Tx-rebuilt:%d-cells" % n] != 1 for n in (255, 256, 257)):
        raise Infra("records inside Merkle proofs / rebuilt transactions of 255, 256, 257 cells were not recorded: %s" %
                    {k: v for k, v in ds.items() if k.startswith("Tx-")})
    if not any(e["k"] == "Msg" and "hnr" in e for e in [x for tp in traces for x in vlib.read_ndjson(tp)]):
        raise Infra("no message with a library-cell body went through the decoder with a library resolver")
    if ds["Tx-Block.AllTransactions"] < 20:
        raise Infra("too few entries of Block.AllTransactions were recorded: %d" % ds["Tx-Block.AllTransactions"])
    if gs["Msg-exotic"] != 15 or gs["Tx-exotic"] != 15:
        raise Infra("the bags with exotic subtrees were not all decoded: %d messages, %d transactions" % (gs["Msg-exotic"], gs["Tx-exotic"]))
    if ds["Msg:var-reused"] < 50 or gs["Msg:var-reused"] < 100 or ds["Norm"] < 50:
        raise Infra("too few messages decoded into reused variables / assigned after hashing")
    if ds["Pair:equal"] < 20 or ds["Pair:differ"] < 20 or ds["Pair:free"] < 5:
        raise Infra("random pairs do not cover the three relations: %s" % {k: v for k, v in ds.items() if k.startswith("Pair:")})
    if anyc:
        ck.notes.append("observation (not a verdict): for destinations carrying an anycast prefix Hash(true) used: %s - the library clears the "
                        "anycast of addr_std destinations and keeps it for addr_var ones; both forms are admitted by the specification" % dict(anyc))
    ck.notes.append("block-4 holds no transactions (empty account_blocks); the quick tier judges block-5 and every 6th transaction / 12th descriptor "
                    "entry of block-2, the thorough tier all five blocks")
    # ------------------------------------------------------------------ canaries
    evs = vlib.read_ndjson(traces[0])
    msg = next(e for e in evs if e["k"] == "Msg" and e["class"].startswith("ext_in") and "library" not in e["class"] and "anycast" not in e["class"])
    pair_d = next(e for e in evs if e["k"] == "Pair" and e["why"] == "dest-value" and e["exp"] == "differ")
    pair_e = next(e for e in evs if e["k"] == "Pair" and e["exp"] == "equal")
    tx = next((e for e in evs if e["k"] == "Tx" and e["full"] and e["im"]["p"] and e["om"]), None) or next(e for e in evs if e["k"] == "Tx" and e["full"])
    ck.sample({"direction": "C->S", "event": slim(msg, 1400)})
    ck.sample({"direction": "C->S", "tx": {k: v for k, v in tx.items() if k not in ("cells", "boc", "bocc")}, "cells": len(tx["cells"])})
    c1 = copy.deepcopy(msg); c1["h"] = flip(c1["h"])
    c2 = copy.deepcopy(msg); c2["hnc"] = flip(c2["hnc"])
    c3 = copy.deepcopy(pair_d); c3["exp"] = "equal"
    c4 = copy.deepcopy(pair_d); c4["exp"] = "equal"; c4["b"]["hn"] = c4["a"]["hn"]; c4["b"]["hnc"] = c4["a"]["hnc"]
    c5 = copy.deepcopy(pair_e); c5["b"]["hn"] = flip(c5["b"]["hn"])
    c6 = copy.deepcopy(tx); c6["hc"] = flip(c6["hc"])
    c7 = copy.deepcopy(tx); c7["boc"] = c7["boc"][:-1] + ("0" if c7["boc"][-1] != "0" else "1")
    c8 = copy.deepcopy(tx)
    if c8["om"]:
        c8["om"][-1]["h"] = flip(c8["om"][-1]["h"])
    else:
        c8["nout"] = 1
    allevs = [e for tp in traces for e in vlib.read_ndjson(tp)]
    prf = next(e for e in allevs if e["k"] == "Tx" and e.get("proof") and e["im"]["p"])
    c11 = copy.deepcopy(prf); c11["hc2"] = flip(c11["hc2"])
    c12 = copy.deepcopy(prf); c12["im"]["hc"] = flip(c12["im"]["hc"])
    nrm = next(e for e in allevs if e["k"] == "Norm")
    c13 = copy.deepcopy(nrm); c13["hn"] = flip(c13["hn"])
    c14 = copy.deepcopy(tx); c14["bocc2"] = c14["bocc2"][:-1] + ("0" if c14["bocc2"][-1] != "0" else "1")
    lib = next(e for e in allevs if e["k"] == "Msg" and "hnr" in e and e["class"].startswith("ext_in"))
    c15 = copy.deepcopy(lib); c15["hnr"] = flip(c15["hnr"])
    bld = next(e for e in evs if e["k"] == "Build" and "library" not in e["class"])
    c9 = copy.deepcopy(bld); c9["dec"] = "e"
    c10 = copy.deepcopy(bld); c10["libcells"][0]["b"] = c10["libcells"][0]["b"][:-1] + ("0" if c10["libcells"][0]["b"][-1] == "1" else "1")
    p = os.path.join(ck.work, "canary.ndjson")
    vlib.write_ndjson(p, [c1, c2, c3, c4, c5, c6, c7, c8, msg, pair_d, pair_e, tx, c9, c10, bld, c11, c12, c13, prf, nrm, c14, c15, lib, {"k": "End"}])
    st = (ck.states, ck.transitions, ck.traces_ok, ck.evaluations)
    res, rej = ck.validate_events("MsgHash_Trace", "trace/MsgHash_Trace.cfg", p, name="canary")
    ck.states, ck.transitions, ck.traces_ok, ck.evaluations = st
    got = [r["line"] for r in rej]
    cnotes = {t[1]: t[2] for t in res.tuples("NOTE") if not str(t[2]).startswith("anycast-")}
    intact = not (set(got) & {9, 10, 11, 12, 15, 19, 20, 23})       # the unmodified events must be accepted, or the rejections mean nothing
    ck.canary("one digit of a reported Hash(false) / cached Hash(true) changed -> rejected (original accepted)", 1 in got and 2 in got and intact)
    ck.canary("pair with different destinations declared 'equal' -> rejected (with and without forged equal hashes)",
              3 in got and 4 in got and cnotes.get(3) == "declared" and intact)
    ck.canary("'equal' pair with one normalised hash changed -> rejected", 5 in got and intact)
    ck.canary("transaction: cached hash digit / SourceBoc digit / out-message hash digit changed -> rejected", 6 in got and 7 in got and 8 in got and intact)
    ck.canary("library's own encoding reported undecodable / differing in one bit from the source cell -> rejected", 13 in got and 14 in got and intact)
    ck.canary("record inside a Merkle proof: hash at the second cached decode / cached in_msg hash changed; Hash(true) after assignment "
              "changed -> rejected", 16 in got and 17 in got and 18 in got and intact)
    ck.canary("SourceBoc asked a second time / normalised hash through a decoder with a library resolver changed -> rejected",
              21 in got and 22 in got and intact)
    return ck.finish(rule=RULE, distinct=len(gdistinct | ddistinct))


def replay(ck, path):
    """Re-execute a recorded violation against the current tree: the message is decoded again from its source BoC (or the block
    record is recorded again from the block file) and re-judged by MsgHash_Trace."""
    ck.build_vh()
    rp = json.load(open(path))["replay"]
    v = rp.get("reexec")
    if not v:
        print("nothing to re-execute in %s" % path)
        return 2
    vp, out = os.path.join(ck.work, "v.ndjson"), os.path.join(ck.work, "o.ndjson")
    vlib.write_ndjson(vp, [v])
    ck.run_vh(["replay", "C16", "-in", vp, "-out", out, "-seed", ck.seed])
    evs = vlib.read_ndjson(out)
    if len(evs) < 2:
        raise Infra("re-execution recorded nothing")
    res, rej = ck.validate_events("MsgHash_Trace", "trace/MsgHash_Trace.cfg", out, name="replay")
    for e in evs[:-1]:
        print(json.dumps({k: x for k, x in e.items() if k not in ("cells", "boc", "bocc", "a", "b")}))
    if rej:
        notes = {t[1]: t[2] for t in res.tuples("NOTE")}
        print("rejected: check '%s'" % notes.get(rej[0]["line"]))
        print("VIOLATION property=C16 replay=%s" % path)
        return 1
    print("accepted by MsgHash_Trace")
    return 0
