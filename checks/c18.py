# C18: generated Merkle proofs commit to the original tree and reveal the value (spec/MerkleProof.tla).
import json, os, copy
from collections import Counter
import vlib, cellcommon
from vlib import Infra, log

RULE = ("A trace segment is the life of ONE boc.MerkleProver (Reset = NewMerkleProver; then every request it serves); the state of "
        "MerkleProof_Trace is the prover (T, R) and its cursor sessions, each Cursor()/ProveKeyInHashmap starting with an EMPTY "
        "prune set. S->C: TLC (BFS) explores sequences of up to 3 cursor sessions (Cursor, Ref/Up/Prune, CreateProof, Cursor ...) "
        "on 11 trees of <= 6 rows (shared sub-trees, equal children as one row and as two equal rows) and enumerates 8-bit "
        "dictionaries of <= 4|5 keys from the adversarial pool (distinct values / one value / value referencing a copy of the "
        "sibling leaf, 3 label-form assignments) with every present key, absent keys and the first key asked again; each vector "
        "is executed on one prover per build of the tree (distinct pointers / shared pointers / parsed from a bag). C->S: random "
        "dictionaries (widths 8..256, up to 60|500 entries, five shapes, library-encoded and table-built, in memory and via a "
        "bag; sampled keys, repeats) and random cursor scripts (2-4 sessions per prover, some interleaved, one session without "
        "prunes after a pruning one) on random DAGs. Every recorded proof is parsed with Boc!Parse, hashed with Cells "
        "(Prim!Sha256) and judged in TLC: Merkle-proof root, stored hash/depth = original, level-0 hash of the pruned tree = "
        "original hash, every pruned-branch cell stores hash/depth of the node at the same path, the bag is exactly "
        "Proof(T,R,PS') of the prune set it exhibits with PS' accounted for by THIS session's prunes, value of the key readable "
        "from the proof and equal to the original; absent key => error. TWO-STEP proofs: the source of a prover is the tree under "
        "an earlier proof (pruned branches, root of level 1; spec-written first proofs for every single / pair of positions of "
        "depth <= 2 and for every 1-2 kept keys of a dictionary in S->C, library-made first proofs in C->S); the second proof is "
        "judged with the level-0 hashes / depths of Cells!InfoTable against the source and the original tree (clauses level-mask, "
        "stored-hash/depth, pruned-cell for kept, re-pruned and newly pruned branches). MERKLE CELLS BELOW THE ROOT: 4 spec-built, well-formed "
        "trees (a Merkle-proof cell over a whole / a partly pruned sub-tree, a Merkle-update cell with two children, Merkle depth 2), handed "
        "over as a Boc!Write bag and - without pruned branches - built in memory; TLC scripts prune beside, above, at and strictly beneath "
        "the Merkle cell; CreateProof may refuse iff a Merkle cell is reached by the prune set (no proper prefix of its position pruned), "
        "every bag it returns is judged with the level arithmetic of Cells!InfoTable (a position with k Merkle cells above it needs a "
        "pruned branch of level k+1). Non-trivial = a proof judged; distinct = distinct "
        "proof bags + distinct refusals.")

TRACE = ("MerkleProof_Trace", "trace/MerkleProof_Trace.cfg")
KEY_FORMS = ["exact", "oversized", "cell-raw", "cell-read", "appended"]      # harness/internal/c18 mkKey


def vector_of(seg, upto):
    """the requests of a recorded segment up to and including event index `upto`, as a replayable vector (one build mode)"""
    r = seg[0]
    mode = r.get("mode", "tree")
    if mode == "lib":
        mode = "tree"          # same cells, every cell its own pointer, as the library's encoder builds them
    cs = [{"b": c["b"], "x": c["x"], "r": c["r"]} for c in r["cells"]]
    evs = seg[1:upto + 1]
    v = {"src": r.get("src", ""), "cells": cs, "roots": r["roots"], "modes": [mode]}
    if "srcboc" in r:         # two-step: the source is the tree under this (recorded or spec-written) first proof of `orig`
        v.update(srcboc=r["srcboc"], orig=[{"b": c["b"], "x": c["x"], "r": c["r"]} for c in r["orig"]["cells"]])
    if "bag" in r:            # the source (Merkle cells below the root) is the root of this spec-written bag
        v["bag"] = r["bag"]
    elif any(c["x"] in (3, 4) for c in cs):
        v["bag"] = "memory"   # built in memory from the rows (no pruned branches)
    if r.get("kind") == "dict":
        v.update(t="dict", n=r["n"], keys=[e["key"] for e in evs if e.get("k") == "Key"], kfs=[e.get("kf", "exact") for e in evs if e.get("k") == "Key"])
    else:
        v.update(t="walk", script=[{"k": e["k"], "c": e["c"], "h": e.get("h", 0), "nh": e.get("nh", 0), "i": e.get("i", 0)}
                                   for e in evs if e.get("k") in ("Cursor", "Ref", "Prune", "Create")])
    if r.get("preread"):
        v["preread"] = "readall" if r["preread"] == "decode" else r["preread"]   # (decode = the library read every cell)
    return v


def finding_key(e, reason, cls):
    k = e.get("k")
    if cls == "leak":
        return "C18:prover-reuse:prunes-leak"                # pruned branches of an earlier request of the same prover reappear
    if reason == "absent-key-proved":
        return "C18:dict:absent-key-proved"                  # (whatever the source looks like)
    if reason == "returned-value":
        return "C18:dict:returned-value"                     # the value returned beside the proof is not the dictionary's (whatever the source)
    if cls == "held":
        return "C18:held-cursor:prune-set"                   # wrong positions pruned after a cursor value was kept while others were derived
    if cls in ("beneath-merkle", "merkle"):
        # the source has Merkle-proof / Merkle-update cells below its root (where the session pruned relative to them, and
        # the failing clause, are in the text)
        return "C18:merkle-cell-below-root:%s" % ("refused-although-not-reached" if reason == "create-proof-error" else
                                                  "prune-set" if reason in ("asked-but-not-pruned", "pruned-but-not-asked") else "wrong-proof")
    if cls == "partial":
        return "C18:partial-source:%s" % reason              # the source is the tree under an earlier proof; named by the failing clause
    if k == "Key":
        if reason == "value:pruned" and cls == "twin":
            return "C18:shared-sibling-subtree"              # the sibling pruned at a fork is the same cell as the path's child
        if reason == "value:refs" and cls == "valueref":
            return "C18:value-ref-equals-pruned-sibling"     # a cell referenced by the value is the same cell as a pruned sibling
        return "C18:dict:%s:%s" % (reason, cls)
    if k == "Create":
        return "C18:walk:%s" % reason
    if k == "Panic" and e.get("op") == "NewMerkleProver":
        return "C18:new-merkle-prover:%s" % ("panic" if e.get("panic") else "error")   # a source of the domain is not accepted
    return "C18:event:%s" % (k or "?")


def multi_level_pruned(cs):
    """the masks of the pruned-branch rows that store more than one level"""
    return {int(c["b"][8:16], 2) for c in cs if c["x"] == 1 and len(c["b"]) >= 16 and bin(int(c["b"][8:16], 2) & 7).count("1") > 1}


def judge(ck, traces, stats):
    """validate every trace; returns list of (size, key, what, replay_obj)"""
    def val(tp):
        return ck.validate_segments(*TRACE, tp, timeout=3000, name="trace_" + os.path.basename(tp).split(".")[0][-9:],
                                    heap_gb=2 if ck.thorough else 1, deque=True)   # measured: < 1 GB resident for a 10 MB trace
    found = []
    for tp, (res, rejected) in zip(traces, vlib.parallel(val, traces, n=vlib.NCPU)):
        notes = {}
        for t in res.tuples("NOTE"):
            if len(t) != 4:
                raise Infra("unparsable NOTE line from the trace spec: %r" % (t,))
            notes[t[1]] = (t[2], t[3])
        for t in res.tuples("SEM"):
            stats["walk_semantics:" + t[2]] += 1
        for rj in rejected:
            e, seg = rj["event"], rj["segment"]
            r = seg[0]
            reason, cls = notes.get(rj["line"], ("no-action", ""))
            if reason.startswith("skip:") and not str(r.get("src", "")).startswith("gen"):
                # the first-step proof the library produced is itself wrong (judged in its own segment): nothing to say here
                stats["skipped_two_step_segments"] += 1
                continue
            if reason.startswith("domain:") or reason.startswith("skip:"):
                raise Infra("harness / specification inconsistency (%s) at %s line %d: %s" % (reason, tp, rj["line"], json.dumps(cellcommon.slim(e, 800))))
            key = finding_key(e, reason, cls)
            stats["rejected:" + key] += 1
            nreq = sum(1 for x in seg[1:rj["accepted"] + 1] if x.get("k") in ("Key", "Create"))
            ctx = "request %d of one prover, %s with %d cells (source %s, build '%s')" % (
                nreq, "%d-bit dictionary" % r["n"] if r.get("kind") == "dict" else "tree", len(r["cells"]), r.get("src"), r.get("mode"))
            cl = {"twin": "; the key's path passes a fork whose two children are the same cell",
                  "valueref": "; a cell referenced by the key's value is the same cell as the sibling at a fork of its path",
                  "held": "; a Prune went through a cursor value that was kept while other values were derived",
                  "leak": "; every unaccounted pruned branch was pruned by an EARLIER request of the same prover",
                  "beneath-merkle": "; the source has a Merkle-proof / Merkle-update cell below its root and the session pruned a position strictly beneath it",
                  "merkle": "; the source has a Merkle-proof / Merkle-update cell below its root",
                  "partial": "; the source is the tree under an earlier proof (it contains pruned branches)"}.get(cls, "")
            if e.get("k") == "Key":
                what = "ProofOK fails at clause '%s' for key %s (%s%s): ProveKeyInHashmap returned err=%r proof=%s" % (
                    reason, e["key"], ctx, cl, e.get("msg", e["err"]), e["proof"][:400])
            elif e.get("k") == "Create":
                what = "CreateProof judgement fails at clause '%s' for session %s (%s%s): err=%r proof=%s" % (
                    reason, e["c"], ctx, cl, e.get("msg", e["err"]), e["proof"][:400])
            elif e.get("k") == "Panic" and e.get("op") == "NewMerkleProver":
                what = "NewMerkleProver does not accept a source of the domain (%s): panic=%r err=%r" % (ctx, e.get("panic"), e.get("msg"))
            else:
                what = "recorded event has no action in MerkleProof_Trace (%s): %s" % (ctx, json.dumps(cellcommon.slim(e, 600)))
            # input classes that are invisible to the specification (it sees values): they only NAME a finding, and only when
            # it occurs in no input outside the class
            tags = []
            if cls in ("plain", "partial", "merkle", "beneath-merkle", ""):
                # (the form of the key object can only explain what a lookup answers, not how a bag is built)
                if (e.get("k") == "Key" and e.get("kf", "exact") != "exact"
                        and (reason in ("present-key-error", "absent-key-proved", "returned-value", "panic") or reason.startswith("value:"))):
                    tags.append("kf")
                if multi_level_pruned(r["cells"]):
                    tags.append("mlp")
                if r.get("preread"):
                    tags.append("pre")
            if "kf" in tags:
                what += " [the key was handed over as a BitString made as '%s']" % e["kf"]
            if "mlp" in tags:
                what += " [the source holds pruned branches that store several levels: masks %s]" % sorted(multi_level_pruned(r["cells"]))
            if "pre" in tags:
                what += " [the cells of the source had advanced read cursors when the prover was built]"
            found.append((len(r["cells"]) * 1000 + rj["accepted"], key, what, {"kind": "vector", "vector": vector_of(seg, rj["accepted"])}, tuple(tags)))
    NAMES = {"kf": "C18:dict:key-bitstring-object-form", "mlp": "C18:source-with-multi-level-pruned-branch", "pre": "C18:cells-read-before-prover"}
    untagged = {f[1] for f in found if not f[4]}
    only = {t: {f[1] for f in found if f[4] == (t,)} for t in NAMES}
    def name(f):
        if not f[4] or f[1] in untagged:
            return f[1]
        for t in ("kf", "mlp", "pre"):      # the class that alone explains this key somewhere; else the first of the entry's classes
            if t in f[4] and f[1] in only[t]:
                return NAMES[t]
        return NAMES[next(t for t in ("kf", "mlp", "pre") if t in f[4])]
    found = [(f[0], name(f), f[2], f[3]) for f in found]
    if stats["skipped_two_step_segments"] and not found:
        raise Infra("%d two-step segments could not be judged (source is not a view of the original) although no first-step proof was rejected" % stats["skipped_two_step_segments"])
    return found


# expected verdicts of the synthetic segments of spec/gen/MerkleProof_Canary.tla: (accepted events, clause, class)
CANARY_EXPECT = [("W1", None), ("W2", ("pruned-but-not-asked", "leak")), ("W3", ("pruned-but-not-asked", "plain")), ("W4", ("stored-hash", "plain")),
                 ("W5", None), ("W6", ("pruned-but-not-asked", "leak")), ("D1", None), ("D2", ("value:pruned", "leak")), ("D3", ("value:pruned", "plain")),
                 ("D4", ("absent-key-proved", "plain")), ("D5", ("stored-hash", "plain")), ("D6", ("returned-value", "plain")),
                 ("P1", None), ("P2", ("level-mask", "partial")), ("P3", ("stored-hash", "partial")), ("P4", ("pruned-cell", "partial")),
                 ("Q1", None), ("Q2", ("stored-hash", "partial")),
                 ("H1", None), ("H2", ("asked-but-not-pruned", "held")), ("K1", ("kept-cell", "plain")),
                 ("X1", None), ("X2", ("pruned-cell", "beneath-merkle")), ("X3", ("create-proof-error", "merkle")), ("X4", None),
                 ("D7", ("present-key-error", "plain")), ("X5", None), ("X6", ("stored-depth", "merkle"))]


def canaries(ck):
    """Binding self-test on synthetic, hand-checkable segments written by the specification itself (no code under test):
    right proofs are accepted; a prune leaking into the next request, a dropped Prune, a flipped stored hash, the proof of
    another key, a proof for an absent key and a wrong returned value are each rejected at the expected event."""
    st = (ck.states, ck.transitions, ck.traces_ok, ck.evaluations)
    res = ck.tlc_or_infra("MerkleProof_Canary", "gen/MerkleProof_Canary.cfg", workers=1, timeout=600, name="canary_gen", heap_gb=1)
    v = res.vecs()
    if len(v) != 1 or not v[0]["selfcheck"] or len(v[0]["lens"]) != len(CANARY_EXPECT):
        raise Infra("canary generator failed")
    p = os.path.join(ck.work, "canary.ndjson")
    vlib.write_ndjson(p, v[0]["events"] + [{"k": "End"}])
    res, rej = ck.validate_segments(*TRACE, p, name="canary", heap_gb=1)
    ck.states, ck.transitions, ck.traces_ok, ck.evaluations = st
    notes = {t[1]: (t[2], t[3]) for t in res.tuples("NOTE")}
    rejected = {r["seg"]: r for r in rej}
    ok, start = True, 1
    for (name, want), ln in zip(CANARY_EXPECT, v[0]["lens"]):
        r = rejected.get(start)
        if want is None:
            ok = ok and r is None
        else:      # rejected exactly at the segment's last event, with the expected clause and class
            ok = ok and r is not None and r["accepted"] == ln - 1 and notes.get(r["line"]) == want
        start += ln
    ck.canary("synthetic segments (spec-written proofs): right sequences accepted; rejected: prune leaking into the next request (walk, dict) or into a concurrent session, "
              "dropped Prune, flipped stored-hash bit (walk, dict), proof of another key, proof for an absent key, wrong returned value", ok)


def generate(ck):
    q = not ck.thorough
    jobs = [("MerkleProof_Gen", "gen/MerkleProof_Gen_quick.cfg" if q else "gen/MerkleProof_Gen_full.cfg", "gen_walk"),
            ("MerkleProof_Gen", "gen/MerkleProof_Gen_free_quick.cfg" if q else "gen/MerkleProof_Gen_free_full.cfg", "gen_walk_free"),
            ("MerkleProof_GenD", "gen/MerkleProof_GenD_quick.cfg" if q else "gen/MerkleProof_GenD_full.cfg", "gen_dict"),
            ("MerkleProof_Gen", "gen/MerkleProof_Gen_two_quick.cfg" if q else "gen/MerkleProof_Gen_two_full.cfg", "gen_walk_two"),
            ("MerkleProof_GenD", "gen/MerkleProof_GenD_two_quick.cfg" if q else "gen/MerkleProof_GenD_two_full.cfg", "gen_dict_two"),
            ("MerkleProof_Gen", "gen/MerkleProof_Gen_hold_quick.cfg" if q else "gen/MerkleProof_Gen_hold_full.cfg", "gen_walk_hold"),
            ("MerkleProof_Gen", "gen/MerkleProof_Gen_exotic_quick.cfg" if q else "gen/MerkleProof_Gen_exotic_full.cfg", "gen_walk_merkle")]
    rs = vlib.parallel(lambda j: ck.tlc_or_infra(j[0], j[1], workers=3, timeout=1500, name=j[2], heap_gb=2), jobs, n=7)
    walks, free, dicts, walks2, dicts2, hold, exo = (r.vecs() for r in rs)
    # sources with a Merkle-proof / Merkle-update cell below the root: scripts by where their sessions prune relative to it
    if len(exo) < 3000 or not all(v["selfcheck"] for v in exo):
        raise Infra("generator of trees with Merkle cells below the root: too few vectors or a tree that is not well formed (%d)" % len(exo))
    def merkle_class(v):
        """the set of {'beneath', 'at', 'above', 'beside', 'none'} over the sessions of the script"""
        out, paths, ps = set(), {0: ()}, []
        def where(p):
            row, above = v["roots"][0], False
            for i in p:
                if v["cells"][row]["x"] in (3, 4):
                    above = True
                row = v["cells"][row]["r"][i]
            if above:
                return "beneath"
            if v["cells"][row]["x"] in (3, 4):
                return "at"
            def has(rw):
                return v["cells"][rw]["x"] in (3, 4) or any(has(k) for k in v["cells"][rw]["r"])
            return "above" if has(row) else "beside"
        for st in v["script"]:
            if st["k"] == "Cursor":
                paths, ps = {0: ()}, []
            elif st["k"] == "Ref":
                paths[st["nh"]] = paths[st["h"]] + (st["i"],)
            elif st["k"] == "Prune":
                ps.append(paths[st["h"]])
            elif st["k"] == "Create":
                out |= {where(p) for p in ps} or {"none"}
        return out
    # tree 8: a cut from beneath two Merkle cells (root of level 2, a kept pruned branch of mask 2, no Merkle cell): every script
    exoH = [v for v in exo if v["xtree"] == 8]
    exo = [v for v in exo if v["xtree"] != 8]
    def prunes_the_level2_branch(v):
        """a Prune AT the kept pruned branch of mask 2 (position 1.0): keeping it (the specification's rule for level-1 branches) and
        replacing it by 01 01 || its level-0 hash (what the reference implementation does) commit to the same hash: not judged"""
        paths = {0: ()}
        for st in v["script"]:
            if st["k"] == "Cursor":
                paths = {0: ()}
            elif st["k"] == "Ref":
                paths[st["nh"]] = paths[st["h"]] + (st["i"],)
            elif st["k"] == "Prune" and paths[st["h"]] == (1, 0):
                return True
        return False
    exoH = [v for v in exoH if not prunes_the_level2_branch(v)]
    for v in exoH:
        v["src"] = "gen:cut-from-beneath-merkle-cells:tree8"
    if len(exoH) < 20 or not any(sum(1 for st in v["script"] if st["k"] == "Prune") for v in exoH):
        raise Infra("generator: too few scripts on the level-2 source (%d)" % len(exoH))
    for v in exo:
        v["src"] = "gen:merkle-below-root:tree%d" % v["xtree"]
        v["mclass"] = merkle_class(v)
    # sources that already hold pruned branches storing several levels (masks 3, 5, 6, 7 beneath two / three Merkle cells)
    exoD = [v for v in exo if multi_level_pruned(v["cells"])]
    if {m for v in exoD for m in multi_level_pruned(v["cells"])} != {3, 5, 6, 7} or len(exoD) < 200:
        raise Infra("no generated source holds pruned branches of the masks 3, 5, 6 and 7 (%d vectors)" % len(exoD))
    exo = [v for v in exo if not multi_level_pruned(v["cells"])]
    exoA = [v for v in exo if "beneath" in v["mclass"]]
    exoB = [v for v in exo if "beneath" not in v["mclass"] and v["mclass"] & {"at", "above"}]
    exoC = [v for v in exo if not v["mclass"] & {"beneath", "at", "above"}]
    if len(exoA) < 300 or len(exoB) < 300 or len(exoC) < 100:
        raise Infra("scripts on trees with Merkle cells: too few prune beneath / at or above / beside a Merkle cell (%d, %d, %d)" % (len(exoA), len(exoB), len(exoC)))
    if len(hold) < 5000:
        raise Infra("hold generator produced too few vectors (%d)" % len(hold))
    def held_deep(v):        # a Prune through a cursor value of depth >= 2 after a later value was derived from the same parent
        depth, last = {0: 0}, 0
        for st in v["script"]:
            if st["k"] == "Cursor":
                depth, last = {0: 0}, 0
            elif st["k"] == "Ref":
                depth[st["nh"]] = depth[st["h"]] + 1; last = st["nh"]
            elif st["k"] == "Prune" and st["h"] != last and depth[st["h"]] >= 2:
                return True
        return False
    for v in hold:
        v["src"] = "gen:hold"
    holdA, holdB = [v for v in hold if held_deep(v)], [v for v in hold if not held_deep(v)]
    if not holdA:
        raise Infra("no generated script prunes through a held cursor value of depth >= 2 (vacuous)")
    if len(walks) < 5000 or len(free) < 500 or len(dicts) < 1000 or len(walks2) < 5000 or len(dicts2) < 2000:
        raise Infra("generators produced too few vectors (%d, %d, %d, %d, %d)" % (len(walks), len(free), len(dicts), len(walks2), len(dicts2)))
    if not all(v["selfcheck"] for v in dicts + dicts2):
        raise Infra("generator self-check failed (the reference dictionary fails its own decoder)")
    for v in dicts:          # the same prover is asked once more for its first key, after all the others
        if len(v["keys"]) > 1:
            v["keys"].append(v["keys"][0]); v["exp"].append(v["exp"][0])
    for v in free:
        v["src"] = "gen:free"
    for v in walks:
        v["src"] = "gen:dfs"
    for v in walks2:
        v["src"] = "gen:two-step"
    for v in dicts:
        v["src"] = "gen:%s:%s" % (v["vmode"], "".join(f[0] for f in v["forms"]))
    for v in dicts2:
        v["src"] = "gen:two-step:%s:%s" % (v["vmode"], "".join(f[0] for f in v["forms"]))
        v.pop("exp", None)
    # two-step walks: prefer scripts that prune in the second step (next to / on / above the first step's pruned branches)
    def prunes(v):
        return any(st["k"] == "Prune" for st in v["script"])
    w2a, w2b = [v for v in walks2 if prunes(v)], [v for v in walks2 if not prunes(v)]
    twin = [v for v in dicts if any(v["twin"])]
    plain = [v for v in dicts if not any(v["twin"])]
    if not twin:
        raise Infra("no generated dictionary has a fork with two equal children (vacuous)")
    ck.extra["generated"] = {"walk_dfs": len(walks), "walk_free": len(free), "dict": len(dicts), "dict_with_equal_siblings": len(twin),
                             "walk_two_step": len(walks2), "dict_two_step": len(dicts2),
                             "walk_hold": len(hold), "walk_hold_prune_through_held_value_depth>=2": len(holdA),
                             "walk_merkle_cell_below_root": len(exo) + len(exoD), "walk_source_with_multi_level_pruned_branches": len(exoD), "walk_merkle_prune_strictly_beneath": len(exoA),
                             "walk_merkle_prune_at_or_above": len(exoB), "walk_merkle_prune_beside_or_none": len(exoC), "walk_source_cut_from_beneath_merkle_cells_level_2": len(exoH)}
    def later_request_after_prune(v):      # a session that starts after an earlier session pruned something
        seen = False
        for st in v["script"]:
            if st["k"] == "Prune":
                seen = True
            elif st["k"] == "Cursor" and seen:
                return True
        return False
    seq = [v for v in walks if later_request_after_prune(v)]
    other = [v for v in walks if not later_request_after_prune(v)]
    ck.extra["generated"]["walk_dfs_with_session_after_prune"] = len(seq)
    for l in (seq, other, free, twin, plain, w2a, w2b, dicts2, holdA, holdB, exoA, exoB, exoC, exoD, exoH):
        ck.rng.shuffle(l)
    if q:
        seq, other, free, twin, plain = seq[:200], other[:80], free[:80], twin[:100], plain[:150]
        w2a, w2b, dicts2 = w2a[:420], w2b[:60], dicts2[:320]
        holdA, holdB = holdA[:260], holdB[:100]
        exoA, exoB, exoC, exoD, exoH = exoA[:160], exoB[:110], exoC[:50], exoD[:75], exoH[:60]
    else:
        seq, other, free = seq[:7000], other[:3000], free[:4000]
        w2a, w2b, dicts2 = w2a[:12000], w2b[:1500], dicts2[:8000]
        holdA, holdB = holdA[:9000], holdB[:3000]
        exoA, exoB, exoC = exoA[:6000], exoB[:4000], exoC[:1500]
    vecs = seq + other + free + twin + plain + w2a + w2b + dicts2 + holdA + holdB + exoA + exoB + exoC + exoD + exoH
    for i, v in enumerate(vecs):
        v["vec"] = i
        # every third vector: the cells are read before the prover is built (walks: nothing reset afterwards; dictionaries:
        # alternately every cell partly read / all keys proven by another prover first; the root is reset per key as the API asks)
        if i % 3 == 1:
            v["preread"] = "readall" if v["t"] == "walk" or i % 2 else "prove-before"
        if v["t"] == "dict":     # the key is a value: every way of making the BitString object, rotating over requests and vectors
            v["kfs"] = [KEY_FORMS[(i + j) % len(KEY_FORMS)] for j in range(len(v["keys"]))]
        if "orig" in v:
            v["orig"] = [{"b": c["b"], "x": c["x"], "r": c["r"]} for c in v["orig"]]
        for f in ("selfcheck", "reqs", "twin", "forms", "vmode", "xtree", "mclass"):
            v.pop(f, None)
    return vecs


def run(ck):
    ck.assumptions += ["TLC 1.8.0, CommunityModules", "Prim (Sha256, converters)", "Cells / Boc / Dict modules (cross-checked by C01 C02 C05 C07)",
                       "domain: the proven tree consists of ordinary level-0 cells (cursor walks: also Merkle-proof / Merkle-update cells below the root, where a refusal is allowed iff such a cell is reached by the prune set); dictionary values are inline bits, some with 1-2 leaf references",
                       "SHA-256 collision resistance (equal level-0 hash => equal unpruned cells) is only used as a cross-check, cells are also compared structurally"]
    ck.build_vh()
    shards = vlib.NCPU
    # generators and the random driver do not depend on each other
    gen_res, dtraces = vlib.parallel(lambda f: f(), [lambda: generate(ck), lambda: cellcommon.drive_shards(ck, "C18", shards=shards)], n=2)
    vecs = gen_res
    ck.sample({"direction": "S->C", "vector": next(v for v in vecs if v["t"] == "dict")})
    ck.sample({"direction": "S->C", "vector": next(v for v in vecs if v["t"] == "walk" and len(v["script"]) >= 8)})
    def replay(i):
        vp, tp = os.path.join(ck.work, "vec_%02d.ndjson" % i), os.path.join(ck.work, "rtrace_%02d.ndjson" % i)
        vlib.write_ndjson(vp, vecs[i::shards])
        ck.run_vh(["replay", "C18", "-in", vp, "-out", tp], timeout=1800)
        return tp
    rtraces = vlib.parallel(replay, range(shards))
    # bookkeeping and vacuity guards
    stats = Counter()
    proofs = set()
    for tp in rtraces + dtraces:
        mode, nreq, seg, two, pre, mk = "", 0, 0, False, False, False
        for e in vlib.read_ndjson(tp):
            k = e.get("k")
            if k == "Reset":
                mode, nreq, seg, two, pre = e["mode"], 0, seg + 1, "orig" in e, bool(e.get("preread"))
                mk = any(c["x"] in (3, 4) for c in e["cells"])
                for m in multi_level_pruned(e["cells"]):
                    stats["provers_source_with_pruned_mask_%d" % m] += 1
                stats["%s_provers:%s" % (e["kind"], mode)] += 1
            elif k == "Key":
                nreq += 1
                stats["dict_requests_key_form:" + e.get("kf", "?")] += 1
                if e["proof"]:
                    stats["dict_proofs"] += 1; proofs.add(e["proof"])
                    stats["dict_proofs_after_first_request"] += nreq > 1
                    stats["dict_proofs_two_step"] += two
                    stats["dict_proofs_cells_read_before"] += pre
                elif e["err"]:
                    stats["dict_refusals"] += 1; proofs.add((tp, seg, e["key"]))
            elif k == "Create":
                nreq += 1
                stats["walk_requests_source_with_merkle_cells"] += mk
                if e["proof"]:
                    stats["walk_proofs"] += 1; proofs.add(e["proof"])
                    stats["walk_proofs_after_first_request"] += nreq > 1
                    stats["walk_proofs_two_step"] += two
                    stats["walk_proofs_cells_read_before"] += pre
                    stats["walk_proofs_source_with_merkle_cells"] += mk
                elif e["err"]:
                    stats["walk_refusals"] += 1; proofs.add((tp, seg, nreq))
                    stats["walk_refusals_source_with_merkle_cells"] += mk
    if (stats["dict_proofs"] < 1500 or stats["dict_refusals"] < 800 or stats["walk_proofs"] < 1500
            or stats["dict_proofs_after_first_request"] < 1000 or stats["walk_proofs_after_first_request"] < 800
            or stats["dict_proofs_two_step"] < 300 or stats["walk_proofs_two_step"] < 500
            or stats["dict_proofs_cells_read_before"] < 500 or stats["walk_proofs_cells_read_before"] < 500
            or stats["walk_requests_source_with_merkle_cells"] < 400
            or any(stats["dict_requests_key_form:" + f] < 500 for f in KEY_FORMS)
            or any(stats["provers_source_with_pruned_mask_%d" % m] < 3 for m in (3, 5, 6, 7))):
        raise Infra("too few proofs recorded (vacuous): %s" % dict(stats))
    for m in ("tree", "dag", "boc", "lib", "proof"):
        if not stats["dict_provers:" + m]:
            raise Infra("no dictionary was proven in build mode %s" % m)
    canaries(ck)
    # one trace file (one TLC process) per shard: replayed vectors followed by the random driver's events
    traces = []
    for i, (a, b) in enumerate(zip(rtraces, dtraces)):
        evs = [e for e in vlib.read_ndjson(a) + vlib.read_ndjson(b) if e.get("k") != "End"]
        tp = os.path.join(ck.work, "all_%02d.ndjson" % i)
        vlib.write_ndjson(tp, evs + [{"k": "End", "events": len(evs)}])
        traces.append(tp)
    found = judge(ck, traces, stats)
    evs = vlib.read_ndjson(dtraces[0])
    i0 = next(i for i, e in enumerate(evs) if e.get("k") == "Reset" and e["kind"] == "dict")
    ck.sample({"direction": "C->S", "events": [cellcommon.slim(e, 700) for e in evs[i0:i0 + 3]]})
    # smallest failing input first: it becomes the replay file of its key
    for size, key, what, rp in sorted(found, key=lambda f: (f[0], json.dumps(f[3], sort_keys=True))):
        ck.report(key, what, rp)
    ck.extra["stats"] = dict(sorted(stats.items()))
    return ck.finish(rule=RULE, distinct=len(proofs))


def replay(ck, path):
    """Re-execute the stored input against the current tree and judge the new proof with the trace spec."""
    ck.build_vh()
    rp = json.load(open(path))["replay"]
    if rp.get("kind") != "vector":
        print(json.dumps(rp)[:2000])
        return 0
    vp, tp = os.path.join(ck.work, "v.ndjson"), os.path.join(ck.work, "t.ndjson")
    vlib.write_ndjson(vp, [rp["vector"]])
    ck.run_vh(["replay", "C18", "-in", vp, "-out", tp])
    res, rej = ck.validate_segments(*TRACE, tp, name="replay", heap_gb=1)
    for e in vlib.read_ndjson(tp):
        if e.get("k") == "Reset":
            print("prover over a %s with %d cells (build %s)" % (e["kind"], len(e["cells"]), e["mode"]))
        elif e.get("k") == "Key":
            print("  key %s: err=%r proof=%s" % (e["key"], e.get("msg", e["err"]), e["proof"]))
        elif e.get("k") == "Create":
            print("  session %s: CreateProof(value %s): err=%r proof=%s" % (e["c"], e.get("h", 0), e.get("msg", e["err"]), e["proof"]))
        elif e.get("k") == "Cursor":
            print("  session %s: cursor value 0 := prover.Cursor()" % e["c"])
        elif e.get("k") == "Ref":
            print("  session %s: cursor value %s := value %s .Ref(%s)" % (e["c"], e["nh"], e["h"], e["i"]))
        elif e.get("k") == "Prune":
            print("  session %s: value %s .Prune()" % (e["c"], e["h"]))
        elif e.get("k") == "Panic":
            print("  %s failed: panic=%r err=%r" % (e.get("op"), e.get("panic"), e.get("msg")))
    for t in res.tuples("NOTE"):
        print("rejected: line %s clause %s (%s)" % tuple(t[1:4]))
    if rej:
        print("VIOLATION property=C18 replay=%s" % path)
        return 1
    print("accepted by MerkleProof_Trace")
    return 0
