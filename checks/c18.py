# C18: generated Merkle proofs commit to the original tree and reveal the value (spec/MerkleProof.tla).
import json, os, copy
from collections import Counter
import vlib, cellcommon
from vlib import Infra, log

RULE = ("S->C: TLC (BFS) explores the cursor state machine of MerkleProof (Ref/Up/Prune/CreateProof) on 11 trees of <= 6 rows "
        "(shared sub-trees, equal children as one row and as two equal rows) and enumerates 8-bit dictionaries of <= 4|5 keys from "
        "the adversarial pool (both 'distinct values' and 'one value', 3 label-form assignments) with every present key and absent "
        "keys; each vector is executed by boc.MerkleProver/Cursor/CreateProof resp. tlb.ProveKeyInHashmap on three builds of the "
        "tree (distinct pointers / shared pointers / parsed from a bag). C->S: random dictionaries (widths 8..256, up to 60|500 "
        "entries, random / twin / dense / one-value shapes, library-encoded and table-built, in memory and via a bag) and random "
        "cursor walks on random DAGs. Every recorded proof is parsed with Boc!Parse, hashed with Cells (Prim!Sha256) and judged by "
        "MerkleProof!ProofOK / WalkReason in TLC (MerkleProof_Trace): Merkle-proof root, stored hash/depth = original, level-0 hash "
        "of the pruned tree = original hash, every pruned-branch cell stores hash/depth of the node at the same path, the bag is "
        "exactly Proof(T,R,PS') of the prune set it exhibits, value of the key readable from the proof and equal to the original; "
        "absent key => error. Non-trivial = a proof judged (present key or walk); distinct = distinct proof bags + distinct refusals.")

TRACE = ("MerkleProof_Trace", "trace/MerkleProof_Trace.cfg")


def vector_of(e, qi=None):
    """the input of a recorded event as a replayable vector (one mode; one key for dictionaries)"""
    mode = e.get("mode", "tree")
    if mode == "lib":
        mode = "tree"          # same cells, every cell its own pointer, as the library's encoder builds them
    cs = [{"b": c["b"], "x": c["x"], "r": c["r"]} for c in e["cells"]]
    if e["k"] == "Dict":
        keys = [q["key"] for q in e["q"]] if qi is None else [e["q"][qi]["key"]]
        return {"t": "dict", "src": e.get("src", ""), "n": e["n"], "cells": cs, "roots": e["roots"], "keys": keys, "modes": [mode]}
    return {"t": "walk", "src": e.get("src", ""), "cells": cs, "roots": e["roots"], "ops": e["ops"], "modes": [mode]}


def finding_key(e, reason, twin):
    if e.get("k") == "Dict":
        if reason == "value:pruned" and twin == "twin":
            return "C18:shared-sibling-subtree"              # the sibling pruned at a fork is the same cell as the path's child
        if reason == "value:refs" and twin == "valueref":
            return "C18:value-ref-equals-pruned-sibling"     # a cell referenced by the value is the same cell as a pruned sibling
        return "C18:dict:%s:%s" % (reason, twin)
    if e.get("k") == "Walk":
        return "C18:walk:%s" % reason
    return "C18:event:%s" % e.get("k", "?")


def judge(ck, traces, stats):
    """validate every trace; returns list of (size, key, what, replay_obj)"""
    def val(tp):
        return ck.validate_events(*TRACE, tp, timeout=3000, name="trace_" + os.path.basename(tp).split(".")[0][-9:],
                                  heap_gb=2 if ck.thorough else 1)     # measured: 0.6 GB resident for a 10 MB trace
    found = []
    for tp, (res, rejected) in zip(traces, vlib.parallel(val, traces, n=vlib.NCPU)):
        notes = {}
        for t in res.tuples("NOTE"):
            if len(t) != 5:
                raise Infra("unparsable NOTE line from the trace spec: %r" % (t,))
            notes.setdefault(t[1], []).append((t[2], t[3], t[4]))
        for t in res.tuples("SEM"):
            stats["walk_semantics:" + t[2]] += 1
        for rj in rejected:
            e = rj["event"]
            ns = notes.get(rj["line"], [])
            if not ns:
                found.append((0, finding_key(e, "no-action", ""), "recorded event has no action in MerkleProof_Trace: %s" % json.dumps(cellcommon.slim(e, 600)),
                              {"kind": "event", "event": cellcommon.slim(e, 4000)}))
            for qi, reason, twin in ns:
                if reason.startswith("domain:"):
                    raise Infra("harness / specification inconsistency (%s) at %s line %d: %s" % (reason, tp, rj["line"], json.dumps(cellcommon.slim(e, 800))))
                key = finding_key(e, reason, twin)
                stats["rejected:" + key] += 1
                if e["k"] == "Dict":
                    q = e["q"][qi - 1]
                    what = ("ProofOK fails at clause '%s' for key %s of a %d-bit dictionary with %d cells (source %s, build '%s'%s): "
                            "ProveKeyInHashmap returned err=%r proof=%s" % (reason, q["key"], e["n"], len(e["cells"]), e.get("src"), e.get("mode"),
                                                                           {"twin": ", the key's path passes a fork whose two children are the same cell",
                                                                            "valueref": ", a cell referenced by the key's value is the same cell as the sibling at a fork of its path"}.get(twin, ""),
                                                                           q.get("msg", q["err"]), q["proof"][:400]))
                    found.append((len(e["cells"]), key, what, {"kind": "vector", "vector": vector_of(e, qi - 1)}))
                else:
                    what = ("cursor walk judgement fails at clause '%s' (source %s, build '%s', %d cells, ops %s): err=%r proof=%s" % (
                        reason, e.get("src"), e.get("mode"), len(e["cells"]), json.dumps(e["ops"])[:300], e.get("msg", e["err"]), e["proof"][:400]))
                    found.append((len(e["cells"]), key, what, {"kind": "vector", "vector": vector_of(e)}))
    return found


def flip_stored_hash(hexs):
    """flip one bit of the hash stored in the Merkle-proof root cell of a bag written by the library (root = cell 0)"""
    b = bytearray.fromhex(hexs)
    if bytes(b[:4]) != bytes.fromhex("b5ee9c72"):
        raise Infra("canary: unexpected bag magic")
    fl, ob = b[4], b[5]
    sz = fl & 7
    ncells = int.from_bytes(b[6:6 + sz], "big")
    nroots = int.from_bytes(b[6 + sz:6 + 2 * sz], "big")
    pos = 6 + 3 * sz + ob
    root = int.from_bytes(b[pos:pos + sz], "big")
    pos += nroots * sz + (ncells * ob if fl & 0x80 else 0)
    if root != 0 or not (b[pos] & 8) or b[pos + 2] != 3:
        raise Infra("canary: the bag's first cell is not the Merkle-proof root")
    b[pos + 3 + 7] ^= 0x10
    return b.hex()


def canaries(ck, traces):
    evs = [e for tp in traces[:3] for e in vlib.read_ndjson(tp) if e.get("k") in ("Dict", "Walk")]
    def good_dict(e):
        if e["k"] != "Dict" or e["mode"] != "tree":
            return False
        pres = [q for q in e["q"] if q["err"] == "" and q["proof"]]
        return len({q["key"] for q in pres}) >= 2 and any(q["err"] != "" for q in e["q"])
    d = next((e for e in evs if good_dict(e)), None)
    wk = next((e for e in evs if e["k"] == "Walk" and e["mode"] == "tree" and e["proof"] and sum(1 for o in e["ops"] if o["op"] == "prune") == 1), None)
    if d is None or wk is None:
        raise Infra("no recorded event suitable for the canaries")
    pres = [i for i, q in enumerate(d["q"]) if q["err"] == "" and q["proof"]]
    i1 = pres[0]
    i2 = next(i for i in pres if d["q"][i]["key"] != d["q"][i1]["key"])
    ia = next(i for i, q in enumerate(d["q"]) if q["err"] != "")
    def only(e, idxs):
        c = copy.deepcopy(e); c["q"] = [c["q"][i] for i in idxs]; c.pop("exp", None); return c
    c0 = only(d, [i1, i2, ia])
    c1 = only(d, [i1]); c1["q"][0]["proof"] = flip_stored_hash(c1["q"][0]["proof"])
    c2 = only(d, [i1]); c2["q"][0]["proof"] = d["q"][i2]["proof"]; c2["q"][0]["val"] = d["q"][i1]["val"]   # the leaf of key 1 is a pruned branch in the proof of key 2
    c3 = only(d, [ia]); c3["q"][0].update(err="", proof=d["q"][i1]["proof"], val=d["q"][i1]["val"])
    c4 = copy.deepcopy(wk)
    c5 = copy.deepcopy(wk); c5["ops"] = [o for o in c5["ops"] if o["op"] != "prune"]
    c6 = copy.deepcopy(wk); c6["proof"] = flip_stored_hash(c6["proof"])
    p = os.path.join(ck.work, "canary.ndjson")
    vlib.write_ndjson(p, [c0, c1, c2, c3, c4, c5, c6, {"k": "End"}])
    st = (ck.states, ck.transitions, ck.traces_ok, ck.evaluations)
    res, rej = ck.validate_events(*TRACE, p, name="canary", heap_gb=1)
    ck.states, ck.transitions, ck.traces_ok, ck.evaluations = st
    notes = {t[1]: t[3] for t in res.tuples("NOTE")}
    lines = [r["line"] for r in rej]
    ck.canary("C->S: unmodified Dict / Walk events accepted; rejected: flipped stored-hash byte in a proof (dict, walk), the proof of another key "
              "(proven leaf is a pruned branch), a proof claimed for an absent key, a walk with its Prune dropped",
              lines == [2, 3, 4, 6, 7] and notes.get(2) in ("well-formed", "stored-hash") and notes.get(3) == "value:pruned"
              and notes.get(4) == "absent-key-proved" and notes.get(6) == "pruned-but-not-asked" and notes.get(7) in ("well-formed", "stored-hash"))


def generate(ck):
    q = not ck.thorough
    jobs = [("MerkleProof_Gen", "gen/MerkleProof_Gen_quick.cfg" if q else "gen/MerkleProof_Gen_full.cfg", "gen_walk"),
            ("MerkleProof_Gen", "gen/MerkleProof_Gen_free_quick.cfg" if q else "gen/MerkleProof_Gen_free_full.cfg", "gen_walk_free"),
            ("MerkleProof_GenD", "gen/MerkleProof_GenD_quick.cfg" if q else "gen/MerkleProof_GenD_full.cfg", "gen_dict")]
    rs = vlib.parallel(lambda j: ck.tlc_or_infra(j[0], j[1], workers=4, timeout=1500, name=j[2], heap_gb=2), jobs, n=3)
    walks, free, dicts = rs[0].vecs(), rs[1].vecs(), rs[2].vecs()
    if len(walks) < 1000 or len(free) < 100 or len(dicts) < 1000:
        raise Infra("generators produced too few vectors (%d, %d, %d)" % (len(walks), len(free), len(dicts)))
    if not all(v["wf"] for v in walks + free) or not all(v["selfcheck"] for v in dicts):
        raise Infra("generator self-check failed (Proof() not well-formed, or the reference dictionary fails its own decoder)")
    for v in free:
        v["src"] = "gen:free"
    for v in walks:
        v["src"] = "gen:dfs"
    for v in dicts:
        v["src"] = "gen:%s:%s" % (v["vmode"], "".join(f[0] for f in v["forms"]))
    twin = [v for v in dicts if any(v["twin"])]
    plain = [v for v in dicts if not any(v["twin"])]
    if not twin:
        raise Infra("no generated dictionary has a fork with two equal children (vacuous)")
    ck.extra["generated"] = {"walk_dfs": len(walks), "walk_free": len(free), "dict": len(dicts), "dict_with_equal_siblings": len(twin)}
    if q:
        for l in (walks, free, twin, plain):
            ck.rng.shuffle(l)
        walks, free, twin, plain = walks[:320], free[:100], twin[:100], plain[:170]
    vecs = walks + free + twin + plain
    for i, v in enumerate(vecs):
        v["vec"] = i
        for f in ("wf", "selfcheck", "expcells", "ps", "twin", "forms", "vmode"):
            v.pop(f, None)
    return vecs


def run(ck):
    ck.assumptions += ["TLC 1.8.0, CommunityModules", "Prim (Sha256, converters)", "Cells / Boc / Dict modules (cross-checked by C01 C02 C05 C07)",
                       "domain: the proven tree consists of ordinary level-0 cells; dictionary values are inline bits, some with 1-2 leaf references",
                       "SHA-256 collision resistance (equal level-0 hash => equal unpruned cells) is only used as a cross-check, cells are also compared structurally"]
    ck.build_vh()
    shards = vlib.NCPU
    # generators and the random driver do not depend on each other
    gen_res, dtraces = vlib.parallel(lambda f: f(), [lambda: generate(ck), lambda: cellcommon.drive_shards(ck, "C18", shards=shards)], n=2)
    vecs = gen_res
    ck.sample({"direction": "S->C", "vector": next(v for v in vecs if v["t"] == "dict")})
    ck.sample({"direction": "S->C", "vector": next(v for v in vecs if v["t"] == "walk" and len(v["ops"]) >= 4)})
    def replay(i):
        vp, tp = os.path.join(ck.work, "vec_%02d.ndjson" % i), os.path.join(ck.work, "rtrace_%02d.ndjson" % i)
        vlib.write_ndjson(vp, vecs[i::shards])
        ck.run_vh(["replay", "C18", "-in", vp, "-out", tp], timeout=1800)
        return tp
    rtraces = vlib.parallel(replay, range(shards))
    # bookkeeping and vacuity guards
    stats = Counter()
    proofs = set()
    for tp in rtraces + dtraces:
        for e in vlib.read_ndjson(tp):
            if e.get("k") == "Dict":
                stats["dict_events:" + e["mode"]] += 1
                for q in e["q"]:
                    if q["proof"]:
                        stats["dict_proofs"] += 1; proofs.add(q["proof"])
                    elif q["err"]:
                        stats["dict_refusals"] += 1; proofs.add((e["vec"], e["src"], e["mode"], q["key"]))
            elif e.get("k") == "Walk":
                stats["walk_events:" + e["mode"]] += 1
                if e["proof"]:
                    stats["walk_proofs"] += 1; proofs.add(e["proof"])
    if stats["dict_proofs"] < 1500 or stats["dict_refusals"] < 800 or stats["walk_proofs"] < 1500:
        raise Infra("too few proofs recorded (vacuous): %s" % dict(stats))
    for m in ("tree", "dag", "boc", "lib"):
        if not stats["dict_events:" + m]:
            raise Infra("no dictionary was proven in build mode %s" % m)
    canaries(ck, rtraces)
    # one trace file (one TLC process) per shard: replayed vectors followed by the random driver's events
    traces = []
    for i, (a, b) in enumerate(zip(rtraces, dtraces)):
        evs = [e for e in vlib.read_ndjson(a) + vlib.read_ndjson(b) if e.get("k") != "End"]
        tp = os.path.join(ck.work, "all_%02d.ndjson" % i)
        vlib.write_ndjson(tp, evs + [{"k": "End", "events": len(evs)}])
        traces.append(tp)
    found = judge(ck, traces, stats)
    ev0 = next(e for e in vlib.read_ndjson(dtraces[0]) if e.get("k") == "Dict")
    ev0 = dict(ev0, q=ev0["q"][:1] + ev0["q"][-1:])
    ck.sample({"direction": "C->S", "event": cellcommon.slim(ev0, 1400)})
    # smallest failing input first: it becomes the replay file of its key
    for size, key, what, rp in sorted(found, key=lambda f: (f[0], json.dumps(f[3], sort_keys=True))):
        ck.report(key, what, rp)
    ck.extra["stats"] = dict(sorted(stats.items()))
    return ck.finish(rule=RULE, distinct=len(proofs))


def replay(ck, path):
    """Re-execute the stored input against the current tree and judge the new proof with the trace spec."""
    ck.build_vh()
    rp = json.load(open(path))["replay"]
    if rp.get("kind") != "vector":
        print(json.dumps(rp)[:2000])
        return 0
    vp, tp = os.path.join(ck.work, "v.ndjson"), os.path.join(ck.work, "t.ndjson")
    vlib.write_ndjson(vp, [rp["vector"]])
    ck.run_vh(["replay", "C18", "-in", vp, "-out", tp])
    res, rej = ck.validate_events(*TRACE, tp, name="replay", heap_gb=1)
    for e in vlib.read_ndjson(tp):
        if e.get("k") == "Dict":
            for q in e["q"]:
                print("key %s (n=%d, build %s): err=%r proof=%s" % (q["key"], e["n"], e["mode"], q.get("msg", q["err"]), q["proof"]))
        elif e.get("k") == "Walk":
            print("walk %s (build %s): err=%r proof=%s" % (json.dumps(e["ops"]), e["mode"], e.get("msg", e["err"]), e["proof"]))
    for t in res.tuples("NOTE"):
        print("rejected: line %s query %s clause %s (%s)" % tuple(t[1:5]))
    if rej:
        print("VIOLATION property=C18 replay=%s" % path)
        return 1
    print("accepted by MerkleProof_Trace")
    return 0
