# X05 (extra check): pure helpers of tongo/utils and tongo/ton against spec/TextForms.tla:
# CRC-16/XMODEM, CRC-32, get-method ids, human amounts, block id text / TL forms, 256-bit string forms.
import json, os, copy, collections
import vlib, xgrow
from vlib import Infra, log

RULE = ("S->C: TextForms_Gen enumerates the case analysis of TextForms -- byte strings (method names, every length class, single bytes) with "
        "their CRC-16/XMODEM, CRC-32/ISO-HDLC (bit-serial Rocksoft model in TLA+) and get-method id; amounts 10^k, 10^k +- 1, d*10^k, runs of "
        "nines, 2^63-1 and negatives with the normalised human form; block ids int32 edges x shard patterns (leading zero digits, "
        "8000000000000000, all ones, zero) x uint32 edges with both text spellings, the five-field text and the 80-byte TL form; 42 "
        "malformations of the block id text (missing / extra fields, overflow by one, signs, hex prefixes, white space, unterminated, "
        "trailing text ...) with the reading TextForms!BlockIdRead gives them (ok / bad / free); 256-bit values in hex, 0x-hex, base64 std / "
        "url, JSON, and 39 malformed or non-canonical texts judged for every reader -- the harness calls the real functions and the "
        "runner compares field by field. C->S: random values and random single / double edits of well-formed texts go through the real "
        "API (utils.Crc16, Crc16String, Crc32String, MethodIdFromName, HumanFriendlyCoinsRepr; ton.BlockID.String, BlockIDExt.String / "
        "MarshalTL / UnmarshalTL, ParseBlockID; every entry of the hand-written table code.Methods; ton.Bits256 Hex / Base64 / MarshalJSON / FromHex / FromBase64 / FromBase64URL / "
        "FromUnknownString / ParseHash / UnmarshalJSON / FromBytes) and every recorded call is accepted by TextForms_Trace only if the "
        "output is what the definition gives, every parse-back is the identity, texts the specification reads as a value are read as "
        "that value, and texts that denote nothing are refused; a panic is never accepted. distinct = distinct vectors + distinct events.")
TRACE = ("TextForms_Trace", "trace/TextForms_Trace.cfg")
FN = {"Crc": "Crc16/Crc32String/MethodIdFromName", "Coins": "HumanFriendlyCoinsRepr", "Blk": "BlockID.String", "BlkParse": "ParseBlockID",
      "TlDec": "BlockIDExt.UnmarshalTL", "H256": "Bits256.forms", "FromBytes": "Bits256.FromBytes", "MethodTable": "code.Methods"}
READER = {"hex": "FromHex", "b64": "FromBase64", "url": "FromBase64URL", "any": "FromUnknownString", "parsehash": "ParseHash",
          "json": "UnmarshalJSON", "json.std": "json.Unmarshal"}


def samples(ck):
    r = ck.rng
    hexn = lambda n: "%0*x" % (2 * n, r.getrandbits(8 * n)) if n else ""
    lens = [1, 2, 3, 5, 8, 9, 13, 21, 34, 55, 64, 65, 100, 300] + ([1000, 2000] if ck.thorough else [])
    na = 120 if ck.thorough else 24
    amounts = [str(r.randrange(10 ** (k % 19), min(10 ** (k % 19 + 1), 2 ** 63))) for k in range(na)]
    return {"blobs": [hexn(n) for n in lens] + [hexn(r.randrange(1, 40)) for _ in range(40 if ck.thorough else 8)],
            "amounts": amounts, "rnd64": [format(r.getrandbits(64), "064b") for _ in range(6 if ck.thorough else 2)],
            "hashes": ["00" * 32, "ff" * 32, "fbefbe" * 10 + "fbef", "00" * 31 + "01"] + [hexn(32) for _ in range(8 if ck.thorough else 2)]}


def fn_of(e):
    return "Bits256." + READER[e["fn"]] if e["k"] == "H256Parse" else FN.get(e["k"], e["k"])


def admits(d, e):
    if d["cls"] == "ok":
        return e["err"] == "" and e["v"] == d["v"]
    if d["cls"] == "bad":
        return e["err"] != ""
    return e["err"] != "" or not d["hasv"] or e["v"] == d["v"]


def same_id(r, i):
    return r["err"] == "" and all(r[k] == i[k] for k in ("wc", "shard", "seqno"))


def compare(v, e):
    """None, or the clause of the vector's expectation the recorded call breaks"""
    if e.get("panic"):
        return "panic"
    k = v["k"]
    if k == "crc":
        for f in ("c16", "c32", "mid"):
            if e[f] != v[f]:
                return f
        return None if e["c16s"] == v["c16"] else "c16s"
    if k == "coins":
        return None if v["cls"] == "denote" or e["out"] == v["text"] else "text"
    if k == "blkfmt":
        if e["str"] not in (v["text16"], v["textmin"]):
            return "String"
        if e["ext"] not in (v["ext16"], v["extmin"]):
            return "BlockIDExt.String"
        if e["tl"] != v["tl"]:
            return "MarshalTL"
        for b in ("back", "back16", "backmin", "tlback"):
            if not same_id(e[b], v["id"]):
                return b
        return None if (e["tlback"]["root"], e["tlback"]["file"]) == (v["root"], v["file"]) else "tlback"
    if k == "blkparse":
        if v["cls"] == "ok":
            return None if same_id(e, v["id"]) else "value"
        if v["cls"] == "bad":
            return None if e["err"] else "accepted"
        return None if e["err"] or v["id"]["wc"] == "" or same_id(e, v["id"]) else "value"
    if k == "tldec":
        if v["cls"] == "bad":
            return None if e["err"] else "accepted"
        return None if same_id(e, v["id"]) and (e["root"], e["file"]) == (v["root"], v["file"]) else "value"
    if k == "h256":
        for f in ("hex", "b64", "json"):
            if e[f] != v[f]:
                return f
        if len(e["backs"]) != 11:
            return "backs"
        for b in e["backs"]:
            if b[1] != "" or b[2] != v["v"]:
                return "back:" + b[0]
        return None
    if k == "h256parse":
        d = v["fns"][{"parsehash": "any", "json.std": "json"}.get(e["fn"], e["fn"])]
        return None if admits(d, e) else ("accepted" if d["cls"] == "bad" else "value")
    raise Infra("unknown vector kind " + k)


def text(h):
    return bytes.fromhex(h).decode("latin1")


def run(ck):
    ck.assumptions += ["TLC + CommunityModules Json", "Prim converters only (hex, bits, decimal <-> bits, UTF-8 codes); CRC, base64, hex, decimal "
                       "syntax, two's complement and every layout are TLA+ (Prim!Crc32Ieee is used once, as a cross-check of the TLA+ CRC-32)",
                       "BlockID.String: the reference prints the shard with 16 hex digits; the form without leading zeros denotes the same value "
                       "and is accepted (recorded as an observation)",
                       "ParseBlockID: white space, text after ')', a missing ')', '+', leading zeros, upper-case hex and more than 16 shard "
                       "digits with leading zeros are 'free' (may be refused; if accepted the value must be the one denoted); only texts that "
                       "denote no block id must be refused",
                       "256-bit readers: non-canonical base64 (missing / extra padding, non-zero unused bits, line feeds), '0X', and JSON documents "
                       "that are not a plain string are 'free'",
                       "HumanFriendlyCoinsRepr of a negative amount: only 'the text denotes exactly the amount' is required"]
    ck.build_vh()
    # ------------------------------------------------------------------ S->C
    smp = samples(ck)
    vecs = xgrow.gen(ck, "TextForms_Gen", "gen/TextForms_Gen.cfg", smp, "gen", workers=4)
    classes = collections.Counter(v["cl"] for v in vecs)
    kinds = collections.Counter(v["k"] for v in vecs)
    if set(kinds) != {"crc", "coins", "blkfmt", "blkparse", "tldec", "h256", "h256parse"} or len(classes) < 90:
        raise Infra("generator incomplete: %s" % dict(kinds))
    ck.extra["vectors"] = dict(kinds)
    ck.extra["vector_classes"] = len(classes)
    evs, pending, p = xgrow.run_vectors(ck, "X05", vecs, "vectors")
    if p.returncode != 0 and not pending:
        raise Infra("replay failed: " + p.stdout[-2000:])
    if pending:
        ck.report("X05:crash:%s" % pending.get("what", "?"), "the process died inside a call: %s" % json.dumps(pending)[:600],
                  {"kind": "vectors", "vectors": [v for v in vecs if v["vec"] >= (evs[-1]["vec"] if evs else 0)][:3]})
    verdicts, notes = xgrow.judge(ck, *TRACE, evs, "trace_gen", timeout=1800)
    by_vec = collections.defaultdict(list)
    for e, ok in zip(evs, verdicts):
        by_vec[e["vec"]].append((e, ok))
    obs = collections.defaultdict(set)
    for v in vecs:
        got = by_vec.get(v["vec"], [])
        if not got and not pending:
            raise Infra("vector %d was not replayed" % v["vec"])
        for e, ok in got:
            why = compare(v, e)
            if why or not ok:
                ck.report("X05:%s:%s" % (fn_of(e), v["cl"]), "vector %d (%s%s): specification requires %s; code gave %s [%s%s]" % (
                    v["vec"], v["cl"], ", input %r" % text(v["s"])[:80] if "s" in v else "", json.dumps({k: x for k, x in v.items() if k not in ("s", "vec", "k", "cl")})[:500],
                    json.dumps(e)[:700], why or "", "" if ok else "; rejected by TextForms_Trace"), {"kind": "vectors", "vectors": [v]})
            else:
                ck.traces_ok += 0
            # observations: what the library does where the documents leave it free
            if v["k"] == "blkparse" and v["cls"] == "free" and e["err"] == "":
                obs["ParseBlockID accepts"].add(v["cl"].split(":", 1)[1])
            if v["k"] == "h256parse" and e["err"] == "":
                d = v["fns"][{"parsehash": "any", "json.std": "json"}.get(e["fn"], e["fn"])]
                if d["cls"] == "free":
                    obs["Bits256.%s accepts" % READER[e["fn"]]].add(v["cl"].split(":", 1)[1])
            if v["k"] == "blkfmt" and e.get("str") == v["textmin"] != v["text16"]:
                obs["BlockID.String omits leading zero digits of the shard (the reference prints 16 digits)"].add(text(e["str"]))
            if v["k"] == "coins" and v["cls"] == "denote" and ok:
                obs["HumanFriendlyCoinsRepr of a negative amount is not scaled to a unit"].add("%s -> %s" % (v["amount"], text(e["out"])))
    ck.evaluations += len(vecs)
    ck.sample({"direction": "S->C", "vector": next(v for v in vecs if v["cl"] == "blkparse:wc-2^31")})
    ck.sample({"direction": "S->C", "vector": next(v for v in vecs if v["k"] == "coins" and v["cl"] == "coins:TON")})
    # canaries S->C: corrupt an expectation; comparing it with the recorded call must flag it
    def first(pred):
        v = next(v for v in vecs if pred(v))
        return copy.deepcopy(v), by_vec[v["vec"]]
    cans = []
    c, g = first(lambda v: v["k"] == "crc" and v["cl"] == "crc:9..64"); c["c16"] = (c["c16"] + 1) % 65536; cans.append(("S->C: expected CRC-16 altered", c, g))
    c, g = first(lambda v: v["k"] == "crc" and v["cl"] == "crc:9..64"); c["c32"] = str(int(c["c32"]) ^ 1); cans.append(("S->C: expected CRC-32 altered", c, g))
    c, g = first(lambda v: v["k"] == "crc"); c["mid"] -= 65536; cans.append(("S->C: expected method id without bit 16", c, g))
    c, g = first(lambda v: v["cl"] == "coins:TON"); c["text"] = text(c["text"]).replace(" TON", " kiloTON").encode().hex(); cans.append(("S->C: expected unit altered", c, g))
    c, g = first(lambda v: v["cl"] == "blkparse:canon16"); c["id"]["seqno"] = "7"; cans.append(("S->C: expected seqno altered", c, g))
    c, g = first(lambda v: v["cl"] == "blkparse:canon16"); c["cls"] = "bad"; cans.append(("S->C: well-formed block id expected to be refused", c, g))
    c, g = first(lambda v: v["cl"] == "blkparse:two-fields"); c["cls"] = "ok"; cans.append(("S->C: malformed block id expected to be read", c, g))
    c, g = first(lambda v: v["k"] == "blkfmt"); c["tl"] = xgrow.flip_hex(c["tl"], 5); cans.append(("S->C: expected TL bytes altered", c, g))
    c, g = first(lambda v: v["cl"] == "tldec:long"); c["cls"] = "ok"; cans.append(("S->C: 81 TL bytes expected to be read", c, g))
    c, g = first(lambda v: v["k"] == "h256"); c["b64"] = xgrow.flip_hex(c["b64"], 5, 3); cans.append(("S->C: expected base64 altered", c, g))
    c, g = first(lambda v: v["cl"] == "h256parse:hex"); c["fns"]["hex"]["v"] = xgrow.flip_hex(c["fns"]["hex"]["v"], 0); cans.append(("S->C: expected value of FromHex altered", c, g))
    c, g = first(lambda v: v["cl"] == "h256parse:hex-63"); c["fns"]["hex"]["cls"] = "ok"; cans.append(("S->C: 63 hex digits expected to be read", c, g))
    for nm, c, g in cans:
        ck.canary(nm, any(compare(c, e) for e, _ in g))

    # ------------------------------------------------------------------ C->S
    shards = 4 if ck.thorough else 2

    def drive(i):
        tp = os.path.join(ck.work, "trace_%02d.ndjson" % i)
        p_ = ck.run_vh(["drive", "X05", "-out", tp, "-tier", ck.tier, "-seed", ck.seed, "-shard", i, "-shards", shards], check=False)
        es, pend_ = xgrow.strip(tp, tp + ".s")
        if pend_:
            ck.report("X05:crash:%s" % pend_.get("what", "?"), "driver died inside a call: %s" % json.dumps(pend_)[:600],
                      {"kind": "drive", "shard": i, "shards": shards, "seed": ck.seed, "tier": ck.tier})
        elif p_.returncode != 0:
            raise Infra("driver failed: " + p_.stdout[-2000:])
        return es
    traces = vlib.parallel(drive, range(shards), n=4)
    results = vlib.parallel(lambda t: xgrow.judge(ck, *TRACE, t[1], "trace_%02d" % t[0], timeout=2400), list(enumerate(traces)), n=4)
    ncls = collections.Counter()
    distinct = set()
    allev = []
    for i, (es, (verd, nts)) in enumerate(zip(traces, results)):
        for j, (e, ok) in enumerate(zip(es, verd)):
            nt = nts.get(j, [["?", ""]])[0]
            ncls[e["k"] + ("" if e["k"] not in ("BlkParse", "H256Parse") else ":" + str(nt[0]).split(":")[-1] + ":" + str(nt[1]))] += 1
            distinct.add(json.dumps(e, sort_keys=True))
            allev.append((e, ok))
            if e["k"] == "Blk" and nt[1] == "min":
                obs["BlockID.String omits leading zero digits of the shard (the reference prints 16 digits)"].add(text(e["str"]))
            if e["k"] == "Coins" and nt[0] == "coins:negative" and nt[1] == "other" and ok:
                obs["HumanFriendlyCoinsRepr of a negative amount is not scaled to a unit"].add("%s -> %s" % (e["amount"], text(e["out"])))
            if not ok:
                cls = str(nt[0]) if e["k"] in ("BlkParse", "H256Parse") else text(e["name"]) if e["k"] == "MethodTable" else ("panic" if e.get("panic") else "random")
                ck.report("X05:%s:%s" % (fn_of(e), "panic" if e.get("panic") else cls),
                          "recorded call is not what TextForms requires (%s): %s%s" % (nt, json.dumps(e)[:900], ", text %r" % text(e["s"])[:120] if "s" in e else ""),
                          {"kind": "drive", "shard": i, "shards": shards, "seed": ck.seed, "tier": ck.tier, "index": j})
    ck.extra["events_by_class"] = dict(ncls)
    need = ["Crc", "Coins", "Blk", "TlDec", "H256", "FromBytes", "MethodTable", "BlkParse:ok:accepted", "BlkParse:bad:refused", "H256Parse:ok:accepted", "H256Parse:bad:refused"]
    if not ck.violations and any(ncls[k] == 0 for k in need):
        raise Infra("recorded traces lack classes: %s" % [k for k in need if ncls[k] == 0])
    ck.extra["observations"] = {k: sorted(v)[:12] for k, v in sorted(obs.items())}
    for k, v in sorted(obs.items()):
        ck.notes.append("observation (not a verdict): %s: %s" % (k, ", ".join(sorted(v)[:6])))
    ck.sample({"direction": "C->S", "event": next(e for e, ok in allev if e["k"] == "BlkParse" and e["err"] == "")})

    # canaries C->S
    def pick(pred):
        return next((copy.deepcopy(e) for e, ok in allev if ok and pred(e)), None)
    cl = []

    def mut(nm, pred, f):
        c = pick(pred)
        if c is None:
            if not ck.violations:
                raise Infra("no accepted line for canary '%s'" % nm)
            return
        f(c); cl.append(("C->S: " + nm, c))
    ctrl = pick(lambda e: e["k"] == "Blk")
    if ctrl is not None:
        cl.append(("control", ctrl))
    mut("logged CRC-16 altered", lambda e: e["k"] == "Crc", lambda c: c.update(c16=(c["c16"] + 1) % 65536, c16s=(c["c16"] + 1) % 65536))
    mut("logged CRC-32 altered", lambda e: e["k"] == "Crc", lambda c: c.update(c32=str(int(c["c32"]) ^ 256)))
    mut("logged method id altered", lambda e: e["k"] == "Crc", lambda c: c.update(mid=c["mid"] - 65536))
    mut("one character of a logged amount text altered", lambda e: e["k"] == "Coins" and e["amount"][0] != "-" and len(e["amount"]) > 4,
        lambda c: c.update(out=xgrow.flip_hex(c["out"], 0, 3)))
    mut("logged amount text given another unit", lambda e: e["k"] == "Coins" and text(e["out"]).endswith(" TON"),
        lambda c: c.update(out=text(c["out"]).replace(" TON", " milliTON").encode().hex()))
    mut("logged String() altered", lambda e: e["k"] == "Blk", lambda c: c.update(str=xgrow.flip_hex(c["str"], 1, 1)))
    mut("logged parse-back altered", lambda e: e["k"] == "Blk" and e["seqno"] != "5", lambda c: c["back"].update(seqno="5"))
    mut("logged TL bytes altered", lambda e: e["k"] == "Blk", lambda c: c.update(tl=xgrow.flip_hex(c["tl"], 2)))
    mut("logged ParseBlockID value altered", lambda e: e["k"] == "BlkParse" and e["err"] == "", lambda c: c.update(wc=str(int(c["wc"]) ^ 1)))
    mut("refused malformed block id logged as accepted", lambda e: e["k"] == "BlkParse" and e["err"] != "" and b"," not in bytes.fromhex(e["s"]),
        lambda c: c.update(err="", wc="0", shard="8000000000000000", seqno="1"))
    mut("short TL bytes logged as accepted", lambda e: e["k"] == "TlDec" and e["err"] != "", lambda c: c.update(err=""))
    mut("logged Base64() altered", lambda e: e["k"] == "H256", lambda c: c.update(b64=xgrow.flip_hex(c["b64"], 3, 1)))
    mut("one parse-back dropped", lambda e: e["k"] == "H256", lambda c: c.update(backs=c["backs"][:-1]))
    mut("logged reader value altered", lambda e: e["k"] == "H256Parse" and e["err"] == "", lambda c: c.update(v=xgrow.flip_hex(c["v"], 31)))
    mut("refused malformed 256-bit text logged as accepted", lambda e: e["k"] == "H256Parse" and e["err"] != "" and e["fn"] == "hex" and len(e["s"]) < 120,
        lambda c: c.update(err="", v="00" * 32))
    mut("FromBytes of 31 bytes logged as accepted", lambda e: e["k"] == "FromBytes" and e["n"] != 32, lambda c: c.update(err=""))
    mut("panic logged", lambda e: e["k"] == "Coins", lambda c: c.update(panic="x"))
    mut("one id of the method table altered", lambda e: e["k"] == "MethodTable", lambda c: c.update(id=str(int(c["id"]) + 1)))
    if cl:
        st = (ck.states, ck.transitions, ck.traces_ok, ck.evaluations)
        cverd, _ = xgrow.judge(ck, *TRACE, [c for _, c in cl], "canaries")
        ck.states, ck.transitions, ck.traces_ok, ck.evaluations = st
        for (nm, _), ok in zip(cl, cverd):
            if nm == "control":
                if not ok:
                    raise Infra("canary control line (an untouched accepted line) was rejected")
            else:
                ck.canary(nm, not ok)
    return ck.finish(rule=RULE, distinct=len(vecs) + len(distinct))


def replay(ck, path):
    ck.build_vh()
    rp = json.load(open(path))["replay"]
    bad = False
    if rp["kind"] == "vectors":
        vs = rp["vectors"]
        evs, pending, p = xgrow.run_vectors(ck, "X05", vs, "replay")
        if pending:
            print("the process died inside a call: %s" % json.dumps(pending)); bad = True
        verd, _ = xgrow.judge(ck, *TRACE, evs, "replay_trace") if evs else ([], {})
        vv = {v["vec"]: v for v in vs}
        for e, ok in zip(evs, verd):
            why = compare(vv[e["vec"]], e)
            print(json.dumps(e)[:1500], why or "", "" if ok else "rejected by TextForms_Trace")
            bad = bad or bool(why) or not ok
    else:
        tp = os.path.join(ck.work, "replay.ndjson")
        ck.run_vh(["drive", "X05", "-out", tp, "-tier", rp["tier"], "-seed", rp["seed"], "-shard", rp["shard"], "-shards", rp["shards"]], check=False)
        es, pend = xgrow.strip(tp, tp + ".s")
        bad = bool(pend)
        verd, _ = xgrow.judge(ck, *TRACE, es, "replay_trace", timeout=2400)
        for e, ok in zip(es, verd):
            if not ok:
                print(json.dumps(e)[:2000]); bad = True
    if bad:
        print("VIOLATION property=X05 replay=%s" % path)
        return 1
    print("replayed: accepted")
    return 0
