# C13: connection pool - best-connection rule (spec/PoolSelect.tla) and wait-list protocol (spec/Pool.tla).
import copy, json, os, re
import vlib
from vlib import Infra, log

PKG = "liteapi/pool"
INPKG = os.path.join(vlib.HARNESS, "inpkg", "liteapi_pool")
FILES = [os.path.join(INPKG, f) for f in ("x_test.go", "gate_test.go", "stress_test.go")]
U_MS = 200          # one unit of the model clock in the gate replays
SLACK_MS = 250      # scheduling tolerance of the trace specification (Pool_Trace.cfg)

RULE = ("S->C (a): TLC evaluates PoolSelect!Choices for every configuration of a grid (N<=4 connections x alive x seqno in "
        "{0,1,2,3,2^32-1} x rtt 0..2); each vector is replayed into the real updateBest for both strategies and every previous "
        "best (0..N), observed through BestMasterchainClient; the pool is filled through the real addConnection in an arrival "
        "order that runs through all permutations, and every arrival order of every subset of 4 configured servers "
        "(PoolOrder_Gen) must leave p.conns and Status() in configuration order. S->C (b): behaviours of Pool are forced step by step on the real "
        "subscribe/notifySubscribers/unsubscribe/SetMasterHead/WaitMasterchainSeqno/updateBest through scheduler gates in the "
        "hooks, comparing goroutine positions, channel lengths, wait list, best and heads after every step: TLC -simulate of the "
        "protocol the code implements (FixNotify = FixTimer = FixSetHead = TRUE; these scripts must be followable) and, as leads, "
        "of the protocol before the repairs, plus every shortest path (BFS with VIEW) to a state of the old protocol in which "
        "NeverStuck / ByDeadline fail - on the repaired code those must end without a hang or a late return. A verdict comes "
        "only from the real code (goroutines that never return, a caller still in its select after deadline+slack, a timeout "
        "before the timeout elapsed), reproduced on a second run. MC: exhaustive TLC of small instances (spec/mc): all "
        "properties for the repaired protocol, the safety part for the old one. C->S: free-running executions recorded through "
        "the hooks are accepted only if Pool_Trace (repaired protocol) finds them to be behaviours of Pool. "
        "distinct = select vectors + scripts followed + trace segments accepted.")


# ------------------------------------------------------------------------------------------------ helpers
def need_hooks():
    for f, n in (("conn_pool.go", 20), ("connection.go", 4)):
        s = open(os.path.join(vlib.REPO, PKG, f)).read()
        if s.count("vhook(") < n:
            raise Infra("the verif hooks are missing from /repo/%s/%s (expected >= %d vhook call sites); re-apply them" % (PKG, f, n))
    for f in ("verif_on.go", "verif_off.go"):
        if not os.path.exists(os.path.join(vlib.REPO, PKG, f)):
            raise Infra("missing /repo/%s/%s" % (PKG, f))


def gotest(ck, run, env, timeout=900):
    p = ck.go_test_inpkg(PKG, FILES, run + "$", extra_env=env, timeout=timeout)
    if p.returncode != 0:
        raise Infra("go test %s failed (%d):\n%s" % (run, p.returncode, (p.stdout or "")[-3000:]))
    return p


def read_out(path):
    rows = vlib.read_ndjson(path)
    if not rows or rows[-1].get("k") != "End":
        raise Infra("driver output %s has no End record" % path)
    return rows[:-1]


def tmp_cfg(ck, src, name, subs):
    s = open(os.path.join(vlib.SPEC, src)).read()
    for a, b in subs:
        if a not in s:
            raise Infra("cfg template %s lacks %r" % (src, a))
        s = s.replace(a, b)
    p = os.path.join(ck.work, name)
    open(p, "w").write(s)
    return os.path.relpath(p, vlib.SPEC)


# ------------------------------------------------------------------------------------------------ S->C (a)
SEQS = [0, 1, 2, 3, 1000000]


def select_vectors(ck):
    """TLC enumerates the grid; quick: N<=3 complete + a seeded sample of the N=4 shards; thorough: everything."""
    jobs = []
    for n in (1, 2, 3):
        jobs.append((n, "{TRUE, FALSE}", "{0, 1, 2, 3, 1000000}", ""))
    shards4 = [(a, s) for a in ("TRUE", "FALSE") for s in SEQS]
    if ck.thorough:
        for a, s in shards4:
            jobs.append((4, "{%s}" % a, "{%d}" % s, ""))
    else:
        a, s = ck.rng.choice(shards4)
        # a quarter of one shard: connection 1 fixed, connection 2's seqno fixed as well
        jobs.append((4, "{%s}" % a, "{%d}" % s, "{%d}" % ck.rng.choice(SEQS)))

    def one(j):
        n, a1, s1, s2 = j
        subs = [("N = 3", "N = %d" % n), ("Alive1 = {TRUE, FALSE}", "Alive1 = " + a1), ("Seq1 = {0, 1, 2, 3, 1000000}", "Seq1 = " + s1)]
        if s2:
            subs.append(("Seq2 = {0, 1, 2, 3, 1000000}", "Seq2 = " + s2))
        cfg = tmp_cfg(ck, "gen/PoolSelect_Gen.cfg", "sel_%d_%s_%s_%s.cfg" % (n, re.sub(r"\W", "", a1), re.sub(r"\W", "", s1), re.sub(r"\W", "", s2)), subs)
        res = ck.tlc_or_infra("PoolSelect_Gen", cfg, workers=2, timeout=1500, heap_gb=2,
                               name="selgen%d_%s_%s" % (n, re.sub(r"\W", "", a1), re.sub(r"\W", "", s1)))
        v = res.vecs()
        if not v:
            raise Infra("PoolSelect_Gen produced no vectors for N=%d" % n)
        return v
    vecs = []
    for v in vlib.parallel(one, jobs, n=6):
        vecs.extend(v)
    return vecs


def select_key(cls):
    return "C13:select:" + cls


def phase_order(ck):
    """Every arrival order of every subset of 4 configured servers (PoolOrder_Gen): the pool is filled through the real
    addConnection; list / Status() order and the refresh on the list as built are compared with the specification."""
    res = ck.tlc_or_infra("PoolOrder_Gen", "gen/PoolOrder_Gen.cfg", workers=1, timeout=300, name="ordgen", heap_gb=1)
    vecs = res.vecs()
    if len(vecs) < 64:
        raise Infra("PoolOrder_Gen produced %d arrival orders, expected 64" % len(vecs))
    vp, op = os.path.join(ck.work, "ord_vec.ndjson"), os.path.join(ck.work, "ord_out.ndjson")
    vlib.write_ndjson(vp, vecs)
    gotest(ck, "TestVerifOrder", {"C13_IN": vp, "C13_OUT": op})
    rows = read_out(op)
    summ = rows[-1]
    if summ.get("k") != "Sum" or summ["vectors"] != len(vecs):
        raise Infra("arrival-order replay incomplete: %s" % summ)
    for r in rows[:-1]:
        arr = [a["id"] for a in r["v"]["arrivals"]]
        if r["class"].startswith("addConnection:"):
            key = "C13:" + r["class"]
            what = "after the connections arrived in the order %s the pool lists %s (Status(): %s); configuration order is %s" % (
                arr[:r.get("step", 0) + 1], r.get("conns"), r.get("status"), r["exp"])
        else:
            key = select_key(r["class"])
            what = "pool filled through addConnection in arrival order %s: the %s refresh chose %s where PoolSelect allows %s" % (
                arr, r["strategy"], r["got"], r["exp"])
        ck.report(key, what, {"kind": "order", "vector": r["v"]})
    ck.traces_ok += summ["vectors"] - len({r["vec"] for r in rows[:-1]})
    ck.evaluations += summ["calls"]
    ck.extra["arrival_orders"] = len(vecs)
    ck.sample({"direction": "S->C arrival order", "vector": vecs[len(vecs) // 2]})
    cv = copy.deepcopy(next(v for v in vecs if len(v["arrivals"]) >= 2))
    cv["arrivals"][-1]["order"] = list(reversed(cv["arrivals"][-1]["order"]))
    cp, co = os.path.join(ck.work, "ord_canary.ndjson"), os.path.join(ck.work, "ord_canary_out.ndjson")
    vlib.write_ndjson(cp, [cv])
    gotest(ck, "TestVerifOrder", {"C13_IN": cp, "C13_OUT": co})
    ck.canary("S->C arrival order: reversed expected list", read_out(co)[-1]["mismatch"] > 0)
    return len(vecs)


def phase_select(ck):
    norder = phase_order(ck)
    vecs = select_vectors(ck)
    vp, op = os.path.join(ck.work, "sel_vec.ndjson"), os.path.join(ck.work, "sel_out.ndjson")
    vlib.write_ndjson(vp, vecs)
    gotest(ck, "TestVerifSelect", {"C13_IN": vp, "C13_OUT": op})
    rows = read_out(op)
    summ = rows[-1]
    if summ.get("k") != "Sum" or summ["vectors"] != len(vecs):
        raise Infra("select replay incomplete: %s" % summ)
    for r in rows[:-1]:
        ck.report(select_key(r["class"]),
                  "updateBest chose %s (observed via %s) where PoolSelect allows %s: strategy %s, previous best %d, connections %s" % (
                      r["got"], r["via"], r["exp"], r["strategy"], r["prev"], json.dumps(r["v"]["c"])),
                  {"kind": "select", "vector": dict(r["v"], arr=r.get("arr", [])), "strategy": r["strategy"], "prev": r["prev"],
                   "got": r["got"], "exp": r["exp"], "arrival_order": r.get("arr", [])})
    ck.traces_ok += summ["vectors"] - len({r["vec"] for r in rows[:-1]})
    ck.evaluations += summ["calls"]
    ck.extra["select_vectors"] = len(vecs)
    ck.extra["select_calls"] = summ["calls"]
    ck.extra["select_mismatch_classes"] = summ.get("classes", {})
    ck.sample({"direction": "S->C select", "vector": vecs[len(vecs) // 2]})
    # canary: corrupt one expectation
    cv = copy.deepcopy(next(v for v in vecs if not v["keep"] and v["n"] >= 2 and len(v["fw"]) == 1 and all(c["s"] != "4294967295" for c in v["c"])))
    cv["fw"] = [1 + (cv["fw"][0] % cv["n"])]
    cp, co = os.path.join(ck.work, "sel_canary.ndjson"), os.path.join(ck.work, "sel_canary_out.ndjson")
    vlib.write_ndjson(cp, [cv])
    gotest(ck, "TestVerifSelect", {"C13_IN": cp, "C13_OUT": co})
    ck.canary("S->C select: corrupted first-working expectation", read_out(co)[-1]["mismatch"] > 0)
    return len(vecs) + norder


# ------------------------------------------------------------------------------------------------ MC
MC_QUICK = ["asis_q", "fixed_q", "fixed_cap_q"]
# the repaired protocol (= the code) with all properties; of the old protocol only the 2x1 instance (safety part) is kept in
# the tier - mc/Pool_MC_asis_1x2.cfg (12 M states) can be run by hand
MC_THOROUGH = ["fixed_1x2", "fixed_cap", "fixed_2x1", "asis_2x1"]


def phase_mc(ck):
    names = MC_THOROUGH if ck.thorough else MC_QUICK
    out = {}

    def one(n):
        res = ck.tlc_or_infra("Pool_MC", "mc/Pool_MC_%s.cfg" % n, workers=6 if ck.thorough else 4, timeout=3000 if ck.thorough else 900,
                              name="mc_" + n, heap_gb=4 if ck.thorough else 2)
        if not res.completed:
            raise Infra("model checking of %s did not complete" % n)
        return n, {"distinct": res.distinct, "generated": res.generated, "wall_s": round(res.wall, 1)}
    for n, r in vlib.parallel(one, names, n=2 if ck.thorough else 3):
        out[n] = r
    ck.extra["mc"] = out


# ------------------------------------------------------------------------------------------------ S->C (b)
def lead_margin(js):
    """For a late-in-select lead: the clock value at which the last stale head was received (the later, the longer the
    real wait outlives its deadline, the less a slow machine can blur the observation)."""
    m = 0
    for st in json.loads(js):
        if st["a"] == "WRecv" and st["o"]["wpc"][st["w"] - 1] == "waiting":
            m = max(m, st["o"]["now"])
    return m


def scripts_from(res, tag, src, nc, nw, strategy, limit=None, per_class=None, fsh=False):
    out, seen, cnt = [], set(), {}
    tuples = res.tuples(tag)
    if tag == "CEX":
        tuples.sort(key=lambda t: -lead_margin(t[-1]) if t[1] == "late-in-select" and isinstance(t[-1], str) else 0)
    for t in tuples:
        js = t[-1]
        if not isinstance(js, str) or js in seen:
            continue
        seen.add(js)
        cls = t[1] if tag == "CEX" else ""
        if per_class and cnt.get(cls, 0) >= per_class:
            continue
        cnt[cls] = cnt.get(cls, 0) + 1
        steps = json.loads(js)
        out.append({"id": "%s-%d" % (src, len(out) + 1), "src": src, "cls": cls, "nc": nc, "nw": nw, "strategy": strategy, "fsh": fsh,
                    "rtt": [0 if k == nc else 1 for k in range(1, nc + 1)], "steps": steps})
        if limit and len(out) >= limit:
            break
    return out


def gen_scripts(ck):
    jobs = []
    # leads: shortest paths to the states in which the properties fail for the protocol as it was before the repairs
    # (blocking notify, timer re-armed, publish under the connection lock). The code now implements the repaired
    # protocol, so these scripts must NOT lead the real code to a hang / a late return; if one does, that is a violation.
    jobs.append(("cex", "gen/Pool_Gen_cex.cfg", [], [], 1, 1, "first-working", False))
    jobs.append(("cexsh", "gen/Pool_Gen_cex_sethead.cfg", [], [], 1, 1, "first-working", False))
    nsim = 300 if ck.thorough else 24
    # behaviours of the protocol the code implements (all three repairs: the scripts must be followable) and of the
    # old protocol (more leads; followable only where the two agree)
    for variant, val in (("repaired", "TRUE"), ("old", "FALSE")):
        for st in ("first-working", "best-ping"):
            subs = [("FixNotify = FALSE", "FixNotify = " + val), ("FixTimer = FALSE", "FixTimer = " + val),
                    ("FixSetHead = FALSE", "FixSetHead = " + val), ('Strategy = "first-working"', 'Strategy = "%s"' % st)]
            jobs.append(("%s-%s" % (variant, st[:2]), "gen/Pool_Gen_sim.cfg", subs,
                         ["-simulate", "num=%d" % nsim, "-depth", "65", "-seed", str(ck.seed * 10 + len(jobs))], 2, 3, st, val == "TRUE"))

    def one(j):
        src, cfg, subs, args, nc, nw, st, fsh = j
        c = tmp_cfg(ck, cfg, "gen_%s.cfg" % src, subs) if subs else cfg
        res = ck.tlc_or_infra("Pool_Gen", c, workers=1 if args else 4, args=args, timeout=900, name="gen_" + src, heap_gb=2)
        if args:
            return scripts_from(res, "VEC", src, nc, nw, st, limit=nsim, fsh=fsh)
        return scripts_from(res, "CEX", src, nc, nw, st, per_class=(40 if ck.thorough else 5), fsh=fsh)
    scripts = []
    for s in vlib.parallel(one, jobs, n=6):
        scripts.extend(s)
    classes = {}
    for s in scripts:
        if s["cls"]:
            classes[s["cls"]] = classes.get(s["cls"], 0) + 1
    ck.extra["leads_from_TLC"] = classes
    if not classes:
        ck.notes.append("TLC found no state of the pre-repair protocol in which NeverStuck/ByDeadline fail: no leads")
    return scripts


def hang_key(h):
    cls = h.get("class", "?")
    if not cls.startswith("hang:"):
        return "C13:" + cls
    sig = sorted({re.sub(r" in goroutine \d+", "", re.sub(r"^\S+ ", "", s)).split(" < ")[0] for s in h.get("stacks", [])})
    return ("C13:hang:" + ";".join(sig))[:120]


def late_key(l):
    # attributed to the re-armed timer only if the re-arm explains it: stale heads were received and the caller is
    # not late with respect to a timer started at the last of them
    if l["stale_heads_received"] > 0 and 0 <= l.get("since_last_stale_head_ms", -1) <= l["timeout_ms"] + U_MS // 2:
        return "C13:timer-rearmed-by-stale-head"
    return "C13:wait-outlives-deadline"


def run_gate(ck, scripts, tag):
    ip, op = os.path.join(ck.work, "gate_%s_in.ndjson" % tag), os.path.join(ck.work, "gate_%s_out.ndjson" % tag)
    vlib.write_ndjson(ip, scripts)
    gotest(ck, "TestVerifGate", {"C13_IN": ip, "C13_OUT": op, "C13_U_MS": str(U_MS), "C13_PAR": "32"}, timeout=1500)
    rows = read_out(op)
    if len(rows) != len(scripts):
        raise Infra("gate replay returned %d of %d scripts" % (len(rows), len(scripts)))
    return {r["id"]: r for r in rows}


def observations(r):
    """(key, description) for everything the real code did wrong in this replay."""
    obs = []
    if r.get("hang"):
        h = r["hang"]
        obs.append((hang_key(h), "goroutines never returned (%s); ConnectionsNumber() %s; blocked at: %s" % (
            ", ".join(h["stuck_roles"]), h["ConnectionsNumber"], " | ".join(h["stacks"]))))
    for x in r.get("early", []):
        obs.append(("C13:timeout-before-deadline", "caller %d (timeout %d ms) took the timeout branch %d ms before the timeout had elapsed" % (
            x["w"], x["timeout_ms"], x["early_by_ms"])))
    for l in r.get("late", []):
        obs.append((late_key(l), "caller %d (timeout %d ms) was still in its select %d ms after entering it, %d stale head(s) received" % (
            l["w"], l["timeout_ms"], l["in_select_ms"], l["stale_heads_received"])))
    return obs


def phase_gate(ck):
    scripts = gen_scripts(ck)
    byid = {s["id"]: s for s in scripts}
    res = run_gate(ck, scripts, "main")
    stats = {}
    suspects = {}
    for sid, r in res.items():
        v = sid.split("-")[0]
        st = stats.setdefault(v, {"scripts": 0, "followed": 0, "diverged": 0, "maporder": 0, "overrun": 0, "timerfirst": 0})
        st["scripts"] += 1
        d = r.get("divergence")
        if d is None:
            st["followed"] += 1
        elif d["kind"] in ("maporder", "overrun", "timerfirst"):
            st[d["kind"]] += 1
        else:
            st["diverged"] += 1
        # a script of the protocol the code implements that the code leaves at a definite point (not Go's map order, not
        # the replayer's timing) is the code doing something the specification does not allow - if it does so again
        if observations(r) or (byid[sid].get("fsh") and d is not None and d["kind"] in ("state", "position")):
            suspects[sid] = r
    ck.extra["gate_replay"] = stats
    ck.evaluations += sum(r["followed"] for r in res.values())
    ck.traces_ok += sum(1 for r in res.values() if r["status"] == "followed")
    # the code implements one of the two protocol variants (the repaired one, since ff488b7..ef82c42): the scripts of
    # that variant must be followable, or S->C says nothing
    rates = {}
    for v in ("repaired", "old"):
        st = stats.get(v)
        if st:
            den = st["scripts"] - st["maporder"] - st["overrun"] - st["timerfirst"]
            rates[v] = st["followed"] / den if den else 0.0
    ck.extra["gate_follow_rate"] = {k: round(x, 3) for k, x in rates.items()}
    sample = next((r for r in res.values() if r["status"] == "followed" and not observations(r)), None)
    if sample:
        ck.sample({"direction": "S->C gates", "script": sample["id"], "steps": [{k: v for k, v in s.items() if k != "o"} for s in byid[sample["id"]]["steps"][:12]]})
    # time-dependent and hang judgments are made twice
    confirmed, unconfirmed = 0, 0
    if suspects:
        again = run_gate(ck, [byid[s] for s in suspects], "again")
        for sid, r in suspects.items():
            keys2 = {k for k, _ in observations(again[sid])}
            for key, what in observations(r):
                if key in keys2:
                    confirmed += 1
                    s = byid[sid]
                    ck.report(key, "gate replay of %s (%d steps, %s): %s" % (sid, len(s["steps"]), s["cls"] or "simulated behaviour", what),
                              {"kind": "script", "script": s, "first_run": {k: v for k, v in r.items() if k != "events"}})
                else:
                    unconfirmed += 1
            d1, d2 = r.get("divergence"), again[sid].get("divergence")
            if byid[sid].get("fsh") and d1 is not None and d1["kind"] in ("state", "position"):
                if d2 is not None and d2.get("code") == d1.get("code") and d2["step"] == d1["step"]:
                    confirmed += 1
                    s = byid[sid]
                    ck.report("C13:" + d1["code"],
                              "gate replay of %s (behaviour of the implemented protocol, %d steps) leaves the specification at step %d (%s), "
                              "twice: %s" % (sid, len(s["steps"]), d1["step"], d1["action"], d1["why"]),
                              {"kind": "script", "script": s, "first_run": {k: v for k, v in r.items() if k != "events"}})
                else:
                    unconfirmed += 1
    ck.extra["gate_observations"] = {"confirmed_on_second_run": confirmed, "not_reproduced": unconfirmed}
    if unconfirmed:
        ck.notes.append("%d observation(s) of a gate replay did not reproduce on the second run and were not reported" % unconfirmed)
    if not ck.violations and not ck.known_hit:
        if not rates or max(rates.values()) < 0.9:
            ex = next((r["divergence"] for r in res.values() if r.get("divergence") and r["divergence"]["kind"] in ("position", "state")), None)
            raise Infra("neither the repaired nor the old protocol of Pool is followed by the code (rates %s); e.g. %s" % (rates, ex))
    # canary: corrupt one expected observation of a script that was followed
    base = next((byid[s] for s, r in res.items() if r["status"] == "followed" and r["attempts"] == 1 and s.startswith("cex")), None) or \
        next(byid[s] for s, r in res.items() if r["status"] == "followed")
    cs = copy.deepcopy(base)
    cs["id"] = "canary-1"
    i = next(i for i, s in enumerate(cs["steps"]) if s["a"] == "SmhSet")
    cs["steps"][i]["o"]["hd"][cs["steps"][i]["k"] - 1] += 1
    cr = run_gate(ck, [cs], "canary")["canary-1"]
    ck.canary("S->C gates: corrupted expected head after SmhSet", cr.get("divergence") is not None and cr["divergence"]["step"] == i)
    return res, byid


# ------------------------------------------------------------------------------------------------ C->S
def script_segment(s, r):
    reset = {"k": "Reset", "nc": s["nc"], "nw": s["nw"], "strategy": s["strategy"], "rtt": s["rtt"], "alive": [True] * s["nc"],
             "profile": "gate:" + s["id"], "seed": "0"}
    return [reset] + r["events"]


def trace_key(rj):
    e = rj["event"]
    if e.get("k") == "Hang":
        return hang_key(e), "the driver's watchdog found goroutines that never returned: " + " | ".join(e.get("stacks", []))
    seg, t = rj["segment"], e.get("t", 0)
    # the pool's wait list differs from the registrations the callers made (len(waitList) is logged under the lock)
    if "nreg" in e:
        regd = set()
        for x in seg[:rj["accepted"] + 1]:
            if x.get("k") == "sub.reg":
                regd.add(x["r"])
            elif x.get("k") == "unsub.done":
                regd.discard(x["r"])      # unsubscribe removes the caller's own registration, nothing else
        if e["nreg"] != len(regd):
            k = "C13:waitlist:entry-lost" if e["nreg"] < len(regd) else "C13:waitlist:entry-leaked"
            return k, "the wait list holds %d entries at %s (t=%d ms) while %d caller(s) are registered and have not unsubscribed (%s)" % (
                e["nreg"], e["k"], t, len(regd), ", ".join(sorted(regd)))
    if e.get("k") == "ret" and e.get("res") == "err":
        return "C13:wait-missed-head", "a caller returned an error although the specification has it woken by a head at or beyond its seqno: " + json.dumps(e)
    # a caller inside its call after deadline + slack?
    calls = {}
    for x in seg[:rj["accepted"] + 1]:
        i = x.get("i")
        if x.get("k") == "call":
            calls[i] = {"tmo": x["b"], "kind": x.get("kind"), "sel": None, "stale": 0, "want": x["a"], "done": False, "last": None}
        elif i in calls and x.get("r", "").startswith("w"):
            c = calls[i]
            if x["k"] == "wait.select" and c["sel"] is None:
                c["sel"] = x["t"]
            elif x["k"] == "wait.recv" and x["b"] < c["want"]:
                c["stale"] += 1
                c["last"] = x["t"]
            elif x["k"] == "unsub.done":
                c["done"] = True
    for i, c in calls.items():
        if not c["done"] and c["kind"] != "bmc" and c["sel"] is not None and t > c["sel"] + c["tmo"] + SLACK_MS:
            # a gap in the recording (the whole process was not scheduled) or lateness that the re-armed timer
            # does not explain is a scheduling effect, not the code
            ts = [x["t"] for x in seg[1:rj["accepted"] + 1] if "t" in x]

            dense = not str(seg[0].get("profile", "")).startswith("gate:")   # under the gates silence is the replayer waiting

            def gaps(a, b):   # time in [a, b] during which nothing at all was recorded (>40 ms of silence)
                return sum(t2 - t1 for t1, t2 in zip(ts, ts[1:]) if t1 >= a and t2 <= b and t2 - t1 > 40) if dense else 0
            stalled = gaps(c["sel"], t)
            if t - c["sel"] - stalled <= c["tmo"] + SLACK_MS:
                k = "C13:wait-outlives-deadline"       # explained by the stall alone
            elif c["stale"] > 0 and t - c["last"] - gaps(c["last"], t) <= c["tmo"] + 50:
                k = "C13:timer-rearmed-by-stale-head"  # late for the original deadline, on time for the re-armed timer
            else:
                k = "C13:wait-outlives-deadline"
            return k, "caller %d (timeout %d ms, entered its select at %d ms) is still inside the call at %d ms; %d stale head(s) received" % (
                i, c["tmo"], c["sel"], t, c["stale"])
    return "C13:trace:" + str(e.get("k")), "event is not a step of Pool: " + json.dumps(e)[:300]


def validate_body(ck, body, tag, deferred=None):
    """Shard a list of events (whole segments) over TLC processes; report rejected segments. Returns (segments, number rejected).
    Rejections whose key is an unclassified hang are appended to `deferred` (if given) instead of being reported: the
    watchdog's judgment is time-dependent and must show up again."""
    segs, cur = [], None
    for e in body:
        if e["k"] == "Reset":
            cur = []
            segs.append(cur)
        cur.append(e)
    if not segs:
        return segs, 0
    nsh = min(8, max(1, len(segs) // 6))
    shards = [[] for _ in range(nsh)]
    for i, s in enumerate(segs):
        shards[i % nsh].extend(s)

    def val(i):
        p = os.path.join(ck.work, "trace_%s_%02d.ndjson" % (tag, i))
        vlib.write_ndjson(p, shards[i] + [{"k": "End", "events": len(shards[i])}])
        return ck.validate_segments("Pool_Trace", "trace/Pool_Trace.cfg", p, timeout=1500 if ck.thorough else 240,
                                    name="trace_%s_%02d" % (tag, i), heap_gb=2)   # over budget = exit 2, never a verdict
    nrej = 0
    lateness = []
    for res, rejected in vlib.parallel(val, range(nsh), n=8):
        for rj in rejected:
            nrej += 1
            key, what = trace_key(rj)
            prof = rj["segment"][0].get("profile", "?")
            if key == "C13:wait-outlives-deadline":
                lateness.append((prof, what))
                continue
            if deferred is not None and key.startswith("C13:hang:"):
                deferred.append((key, prof, what, rj))
                continue
            ck.report(key, "recorded execution (%s, segment of %d events, %d accepted): %s" % (prof, rj["length"], rj["accepted"], what),
                      {"kind": "trace", "segment": rj["segment"][:rj["accepted"] + 1], "rejected_index": rj["accepted"]})
    if lateness:
        # pure lateness without a stale head is a scheduling effect unless it shows up again
        ck.notes.append("%d segment(s) (%s) ended with a caller past deadline+%dms without stale heads (machine load); not reported: %s" % (
            len(lateness), tag, SLACK_MS, lateness[0][1]))
    return segs, nrej


def validate_uncounted(ck, path, name):
    """Trace validation whose states / events do not count as evidence (canaries). Other phases run concurrently, so the
    counters are corrected by this job's own contribution instead of being saved and restored."""
    n = sum(1 for _ in open(path)) - 1
    res, rej = ck.validate_segments("Pool_Trace", "trace/Pool_Trace.cfg", path, name=name, heap_gb=2)
    ck.states -= res.distinct
    ck.transitions -= res.generated
    ck.evaluations -= n
    if not rej:
        ck.traces_ok -= 1
    return rej


def phase_gate_traces(ck, gate_res, byid):
    """The executions forced through the gates are real executions as well: they must be behaviours of Pool too."""
    body, n = [], 0
    for sid, r in gate_res.items():
        if r["status"] == "followed" and n < (200 if ck.thorough else 30):
            body.extend(script_segment(byid[sid], r))
            n += 1
    segs, nrej = validate_body(ck, body, "gate")
    ck.extra["trace_segments_gate"] = {"total": len(segs), "rejected": nrej}
    return len(segs) - nrej


def phase_trace(ck):
    tp = os.path.join(ck.work, "stress.ndjson")
    nseg = 160 if ck.thorough else 18
    gotest(ck, "TestVerifStress", {"C13_OUT": tp, "C13_SEED": str(ck.seed), "C13_SEGMENTS": str(nseg), "C13_PAR": "6"}, timeout=1500)
    lines = [json.loads(l) for l in open(tp)]
    if not lines or lines[-1].get("k") != "End":
        raise Infra("stress driver died")
    body = lines[:-1]
    deferred = []
    segs, nrej = validate_body(ck, body, "stress", deferred)
    if deferred:
        # record once more with the same seed: an unclassified hang is reported only if the same call sites hang again
        tp2 = os.path.join(ck.work, "stress_again.ndjson")
        gotest(ck, "TestVerifStress", {"C13_OUT": tp2, "C13_SEED": str(ck.seed), "C13_SEGMENTS": str(nseg), "C13_PAR": "6"}, timeout=1500)
        again = []
        validate_body(ck, [json.loads(l) for l in open(tp2)][:-1], "stress_again", again)
        keys2 = {k for k, _, _, _ in again}
        for key, prof, what, rj in deferred:
            if key in keys2:
                ck.report(key, "recorded execution (%s, segment of %d events, %d accepted; seen again on a second recording): %s" % (
                    prof, rj["length"], rj["accepted"], what),
                    {"kind": "trace", "segment": rj["segment"][:rj["accepted"] + 1], "rejected_index": rj["accepted"]})
            else:
                ck.notes.append("an unclassified hang of the free-running recorder did not show up again and was not reported: " + what[:300])
    by_profile = {}
    for sg in segs:
        p = sg[0].get("profile", "?")
        by_profile[p] = by_profile.get(p, 0) + 1
    ck.extra["trace_segments"] = {"total": len(segs), "rejected": nrej, "by_profile": by_profile}
    # ---- canaries on a segment that is accepted as recorded
    clean = None
    for s in segs:
        ks = [e["k"] for e in s]
        if "Hang" not in ks and "sub.reg" in ks and "wait.recv" in ks and "smh.send" in ks and len(s) < 1500:
            p = os.path.join(ck.work, "canary_base.ndjson")
            vlib.write_ndjson(p, s + [{"k": "End"}])
            rej = validate_uncounted(ck, p, "canary_base")
            if not rej:
                clean = s
                break
    if clean is None:
        raise Infra("no recorded segment is accepted as it stands: canaries impossible")
    ck.sample({"direction": "C->S", "events": clean[1:6]})
    i_drop = next(i for i, e in enumerate(clean) if e["k"] == "smh.send")
    i_reg = next(i for i, e in enumerate(clean) if e["k"] == "sub.reg")
    i_recv = next(i for i, e in enumerate(clean) if e["k"] == "wait.recv")
    c1 = clean[:i_drop] + clean[i_drop + 1:]
    c2 = clean[:i_reg] + clean[i_reg + 1:]
    c3 = copy.deepcopy(clean)
    c3[i_recv]["b"] += 1
    for nm, c, first_bad in (("C->S: dropped hook event smh.send (head update)", c1, i_drop + 1),
                             ("C->S: dropped hook event sub.reg (registration)", c2, i_reg + 1),
                             ("C->S: corrupted logged head of wait.recv", c3, i_recv + 1)):
        p = os.path.join(ck.work, "canary_%s.ndjson" % re.sub(r"\W+", "_", nm)[:40])
        vlib.write_ndjson(p, c + [{"k": "End"}])
        rej = validate_uncounted(ck, p, "canary")
        # dropping an event is noticed at the first later event that depends on it, never before the gap
        ck.canary(nm, len(rej) == 1 and rej[0]["line"] >= first_bad)
    return len(segs) - nrej


# ------------------------------------------------------------------------------------------------ entry points
def run(ck):
    need_hooks()
    ck.assumptions += ["TLC 2.x + CommunityModules Json", "hooks in liteapi/pool under build tag verif (add-only; vhook is empty without the tag)",
                       "gate replays: ConnPool.Run's select is mirrored by a commanded loop (same two bodies on one goroutine); the real Run "
                       "is exercised by the free-running recorder", "model clock unit = %d ms; deadline slack %d ms (gates) / %d ms (traces)" % (U_MS, U_MS, SLACK_MS),
                       "Go's map iteration order is not controllable: adjacent sends of a notify round are taken in the real order, other scripts "
                       "whose notify order differs are retried 6 times, then skipped",
                       "the code is expected to implement the repaired protocol (commits ff488b7, 5bb5d7a, ef82c42); the old protocol's "
                       "counterexamples are replayed as leads: reaching their hang / late return on the real code is a violation",
                       "exhaustive instances: 1 connection x 2 callers, 2 x 1 (2 x 2 with a 2-slot update channel), heads <= 3, clock <= 4"]
    out = {}

    import time
    tm = {}

    def a():
        t = time.time()
        out["select"] = phase_select(ck)
        tm["select"] = round(time.time() - t, 1)

    def b():
        t = time.time()
        phase_mc(ck)
        tm["mc"] = round(time.time() - t, 1)

    def c():
        t = time.time()
        res, byid = phase_gate(ck)
        tm["gate"] = round(time.time() - t, 1)
        out["gate"] = sum(1 for r in res.values() if r["status"] == "followed")
        t = time.time()
        out["gsegs"] = phase_gate_traces(ck, res, byid)
        tm["gate_traces"] = round(time.time() - t, 1)

    def d():
        t = time.time()
        out["segs"] = phase_trace(ck)
        tm["trace"] = round(time.time() - t, 1)
    errs = []

    def guard(f):
        try:
            f()
        except Exception as e:   # re-raised in the main thread
            errs.append(e)
    vlib.parallel(guard, [a, b, c, d], n=4)
    if errs:
        raise errs[0]
    ck.extra["phase_wall_s"] = tm
    return ck.finish(rule=RULE, distinct=out.get("select", 0) + out.get("gate", 0) + out.get("segs", 0) + out.get("gsegs", 0), exhaustive=ck.thorough)


def replay(ck, path):
    """Re-execute a stored violation against the current tree."""
    need_hooks()
    rp = json.load(open(path))
    key, r = rp["key"], rp["replay"]
    if r["kind"] == "select":
        vp, op = os.path.join(ck.work, "v.ndjson"), os.path.join(ck.work, "o.ndjson")
        vlib.write_ndjson(vp, [r["vector"]])
        gotest(ck, "TestVerifSelect", {"C13_IN": vp, "C13_OUT": op})
        rows = read_out(op)
        for x in rows[:-1]:
            print(json.dumps({k: v for k, v in x.items() if k != "v"}))
        if rows[-1]["mismatch"]:
            print("VIOLATION property=C13 replay=%s" % path)
            return 1
        return 0
    if r["kind"] == "order":
        vp, op = os.path.join(ck.work, "v.ndjson"), os.path.join(ck.work, "o.ndjson")
        vlib.write_ndjson(vp, [r["vector"]])
        gotest(ck, "TestVerifOrder", {"C13_IN": vp, "C13_OUT": op})
        rows = read_out(op)
        for x in rows[:-1]:
            print(json.dumps({k: v for k, v in x.items() if k != "v"}))
        if rows[-1]["mismatch"]:
            print("VIOLATION property=C13 replay=%s" % path)
            return 1
        return 0
    if r["kind"] == "script":
        res = run_gate(ck, [r["script"]], "replay")[r["script"]["id"]]
        obs = observations(res)
        if res.get("divergence") and res["divergence"].get("code"):
            obs.append(("C13:" + res["divergence"]["code"], res["divergence"]["why"]))
        print(json.dumps({k: v for k, v in res.items() if k != "events"}, indent=1))
        if any(k == key for k, _ in obs):
            print("VIOLATION property=C13 replay=%s" % path)
            return 1
        return 0
    if r["kind"] == "trace":
        # a free-running execution cannot be re-executed; the stored segment is re-judged by the specification
        p = os.path.join(ck.work, "seg.ndjson")
        vlib.write_ndjson(p, r["segment"] + [{"k": "End"}])
        _, rej = ck.validate_segments("Pool_Trace", "trace/Pool_Trace.cfg", p, name="replay")
        print("stored segment: %d events, specification accepts %d" % (len(r["segment"]), rej[0]["accepted"] if rej else len(r["segment"])))
        if rej:
            print("VIOLATION property=C13 replay=%s" % path)
            return 1
        return 0
    raise Infra("unknown replay kind")
