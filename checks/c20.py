# C20: JSON forms of chain values parse back to the same value (spec/JsonForms.tla).
import json, os, re, copy
import vlib
from vlib import Infra, log

RULE = ("S->C: TLC enumerates the value-class partition of JsonForms (every generated UintN/IntN/VarUIntegerN/BitsN type x "
        "named bit patterns = min/-1/0/1/max..., bit strings 0..1023 bits, every address kind x workchains x anycast x lengths, "
        "account ids, cells with references / shared children / library cell, Maybe absent/present, message envelopes) plus the "
        "nearest documents outside each type's domain; the Go harness builds each value, calls MarshalJSON and json.Unmarshal and "
        "records the run; for marked class values every truncation and a fixed set of one-byte substitutions at every byte of "
        "the produced text and a list of wrong-kind documents are decoded as well. C->S: random values of every type and "
        "randomly mutated documents are recorded the same way. Every recorded event is judged by TLC (JsonForms_Trace): RT is "
        "accepted iff the text is well-formed per the specification's RFC 8259 recogniser, there is no error and the value "
        "read back equals the value (per-type equality; the excluded AddrVar class is free); a decode of a foreign document is "
        "accepted iff it is an error or an ok parse of a well-formed document, and - when the document is byte-for-byte the encoder's "
        "text for an in-domain value - iff it is ok and equal to that value; Sequences of documents (TLC: every ordered pair of different classes of a type; driver: random chains incl. null / foreign documents) "
        "are decoded into ONE reused variable and into the reused elements of a slice; a step is accepted iff the full structural state of the "
        "target (all exported fields, also Value under Exists=false and non-selected constructors) equals what a fresh decode of that document "
        "gives (JsonForms 4b: the value after decoding d is Denote(d), whatever the target held). The encoder's string text of a value with garbage (zz, _, ' 00', "
        "':Anycast', g, !) inserted after the opening quote, in the middle and before the closing quote must be refused or read as another value, "
        "never as the original (JsonForms 5b). Panic has no action. Accepted documents that encode no "
        "value of the type (out-of-range numerals etc.) are counted as observations only. distinct = distinct (type, value) round trips + distinct (type, document) decodes.")

INT = {"uint", "int", "varuint", "grams", "signedcoins", "magic"}
BYTES = {"bits", "tonbits256", "tlint256"}
CELLY = {"cell", "any", "inbody", "outbody"}


def fam(name):
    """Generated big.Int-backed types share one generator template per family: one key per template."""
    name = re.sub(r"VarUInteger\d+", "VarUIntegerN", name)
    name = re.sub(r"\bUint(128|256|257)\b", "UintBigN", name)
    name = re.sub(r"\bInt(128|256|257)\b", "IntBigN", name)
    return name


def int_shape(ty):
    t, n = ty["t"], ty["n"]
    if t == "uint": return n, False
    if t == "int": return n, True
    if t == "varuint": return 8 * (n - 1), False
    if t == "grams": return 64, False
    if t == "signedcoins": return 64, True
    if t == "magic": return 32, False
    raise KeyError(t)


def carries_cell(ty):
    return ty["t"] in CELLY or (ty["t"] == "maybe" and carries_cell(ty["of"]))


def inner_name(name):
    return name[6:-1] if name.startswith("Maybe[") else "Cell"


def inner_ty(ty):
    return ty["of"] if ty["t"] == "maybe" else {"t": "cell", "n": 0}


def val_class(ty, name, val):
    """(type label, class label) of a value: the input class of a round trip."""
    t = ty["t"]
    if t in INT:
        v = int(val)
        return fam(name), "negative" if v < 0 else "zero" if v == 0 else "positive"
    if t in BYTES:
        return name, "any"
    if t == "bitstring":
        return name, "len0" if not val else ("len%4==0" if len(val) % 4 == 0 else "len%4!=0")
    if t in ("cell", "any"):
        return name, ("refs0" if "[" not in val else "refs>0") + (",exotic" if re.search(r"(^|[\[,])[1-9]\{", val) else "")
    if t == "addr":
        k = val["kind"]
        n = len(val["bits"])
        any_ = ",anycast" if val["any"] == 1 else ""
        if k == "none": return "AddrNone", "none"
        if k == "extern": return "AddrExtern", "len0" if n == 0 else "len>0"
        if k == "std": return "AddrStd", "anycast" if any_ else "plain"
        if k == "var":
            if n == 256 and -128 <= int(val["wc"]) <= 127: return "AddrVar", "len=256,wc=int8" + any_
            return "AddrVar", ("len0" if n == 0 else "len%4==0" if n % 4 == 0 else "len%4!=0") + any_
        return "MsgAddress", k
    if t == "account":
        return name, "wc<0" if int(val["wc"]) < 0 else "wc>=0"
    if t == "maybe":
        if val["ex"] == 0: return fam(name), "absent"
        it, ic = val_class(ty["of"], inner_name(name), val["v"])
        return fam(name), "present(%s)" % (ic if it == fam(inner_name(name)) else it + ":" + ic)
    if t in ("inbody", "outbody"):
        return name, val["sum"] or "Empty"
    return name, "any"


def rt_key(e):
    ty, name, val = e["ty"], e["name"], e["val"]
    inner = e.get("inner")
    if inner is not None and ty["t"] in ("maybe", "any"):
        ib = e["back"]["v"] if (ty["t"] == "maybe" and isinstance(e.get("back"), dict)) else e.get("back")
        same = inner["err"] == e["err"] and (e["err"] != "" or inner.get("back") == ib)
        iv = val["v"] if ty["t"] == "maybe" else val
        failed = inner["err"] != "" or inner.get("back") != iv
        if same and failed:   # the wrapper only delegates: the defect is the inner type's
            return rt_key({"ty": inner_ty(ty), "name": inner_name(name), "val": iv, "err": inner["err"], "back": inner.get("back")})
    tl, cl = val_class(ty, name, val)
    return "C20:%s:%s" % (tl, cl)


def dec_reason(ty, e):
    """Why an ok parse of a foreign document is not acceptable - the class of the document."""
    t, back = ty["t"], e.get("back")
    if e.get("gowf") == 0:
        return "malformed-json-accepted"
    if t in INT:
        w, signed = int_shape(ty)
        v = int(back)
        lo, hi = (-(1 << (w - 1)), (1 << (w - 1)) - 1) if signed else (0, (1 << w) - 1)
        if v < 0 and not signed: return "negative-accepted"
        if v < lo or v > hi: return "out-of-range-accepted"
        return "out-of-range-wrapped"       # a numeral read as a different (in-range) integer
    if t in BYTES:
        return "hex-misread"
    if t in ("cell", "any"):
        return "malformed-boc:cyclic-cell-accepted" if back == "cyclic" else "malformed-boc:accepted"
    if t in ("inbody", "outbody"):
        return "malformed-boc:cyclic-cell-accepted" if back.get("v") == "cyclic" else "out-of-domain-accepted"
    if t == "addr":
        if back["any"] == 1 and not (1 <= back["ad"] <= 30 and 0 <= int(back["ap"]) < (1 << back["ad"])):
            return "anycast-out-of-range-accepted"
        if len(back["bits"]) > 511: return "len>511-accepted"
        return "out-of-domain-accepted:" + back["kind"]
    if t == "maybe":
        return dec_reason(ty["of"], {"back": back["v"], "gowf": 1}) if back["ex"] == 1 else "absent"
    return "out-of-domain-accepted"


def dec_key(e):
    ty, name = e["ty"], e["name"]
    inner = e.get("inner")
    if e["k"] == "Direct" or e.get("op") == "unmarshal-direct":
        return "C20:%s:direct-call:%s" % (fam(name), "panic" if e["k"] == "Panic" else "bad-result")
    res = "panic" if e["k"] == "Panic" else e.get("res")
    if inner is not None and ty["t"] in ("maybe", "any") and inner["res"] == res:
        ib = e["back"]["v"] if (ty["t"] == "maybe" and res == "ok" and e["back"]["ex"] == 1) else e.get("back")
        if res != "ok" or inner.get("back") == ib:   # same outcome from the inner decoder alone
            ie = {"k": e["k"], "ty": inner_ty(ty), "name": inner_name(name), "res": e.get("res"), "back": inner.get("back"),
                  "gowf": e.get("gowf"), "mut": e.get("mut"), "op": e.get("op")}
            return dec_key(ie)
    if e["k"] == "Dec" and "encof" in e and not (e.get("res") == "ok" and e.get("gowf") == 0):
        # the document is the encoder's own text for the value encof, and it was refused or read as another value:
        # the same input class as the round trip of that value
        return rt_key({"ty": ty, "name": name, "val": e["encof"], "err": "unmarshal" if e.get("res") == "err" else "", "back": e.get("back")})
    if e["k"] == "Panic":
        if e.get("op") == "dump":
            return "C20:%s:decoded-value-unusable:panic" % fam(name)
        return "C20:%s:%s:panic" % (fam(name), "malformed-boc" if carries_cell(ty) else "malformed-doc")
    return "C20:%s:%s" % (fam(name), dec_reason(ty, e))


def seq_class(ty, name, val):
    """Class of one document of a reused-target sequence: constructor / sign / presence, deliberately coarse."""
    if val is None:
        return "foreign"
    t = ty["t"]
    if t == "maybe":
        return "absent" if val["ex"] == 0 else "present"
    if t in ("inbody", "outbody"):
        return "Empty" if val["sum"] == "" else "Unknown" if val["sum"] == "Unknown" else "Known"
    tl, cl = val_class(ty, name, val)
    return tl if t == "addr" else cl


def seq_key(e):
    """Input class of a reused-target step: the type and the class of the NEW document (what the target held before is
    in the replay file; a decoder that keeps state fails for every non-fresh predecessor alike)."""
    ty, name = e["ty"], e["name"]
    label = "Maybe[T]" if ty["t"] == "maybe" else fam(name)
    cls = seq_class(ty, name, e.get("val"))
    if cls == "foreign" and ty["t"] in ("inbody", "outbody") and bytes.fromhex(e["doc"]) in (b"{}", b"null"):
        cls = "Empty"       # the two other spellings of the empty body
    if cls == "foreign" and ty["t"] == "maybe" and bytes.fromhex(e["doc"]) == b"null":
        cls = "absent"
    return "C20:%s:reused-target:%s" % (label, cls)


def base_name(ty, name):
    """Maybe[T] / Any only hand a non-null document on to T / Cell."""
    while ty["t"] in ("maybe", "any"):
        name, ty = inner_name(name), inner_ty(ty)
    return fam(name)


def key_of(e):
    if e["k"] == "Seq":
        return seq_key(e)
    if e["k"] == "Ins":
        return "C20:%s:garbage-in-string-ignored" % base_name(e["ty"], e["name"])
    if e["k"] == "RT" or (e["k"] == "Panic" and e.get("op") in ("marshal", "dump") and "val" in e) or (e["k"] == "Panic" and "val" in e):
        # held = "value": the run of the text encoding/json gives for the value held by value (not addressable)
        return rt_key(e) + (":held-by-value" if e.get("held") else "") + (":panic" if e["k"] == "Panic" else "")
    return dec_key(e)


def describe(e):
    def txt(h):
        b = bytes.fromhex(h or "")
        s = b[:160].decode("latin-1")
        return json.dumps(s) + ("..." if len(b) > 160 else "")
    if e["k"] == "Seq":
        return "%s: document %s decoded into a reused %s that held the value of %s gives %s (%s), a fresh decode gives %s (%s)" % (
            e["name"], txt(e["doc"]), "slice element" if e["how"] == "slice" else "variable", txt(e.get("prevdoc")) if e.get("prevdoc") else "a fresh target",
            short(e["after"]), e["res"], short(e["fresh"]), e["freshres"])
    if e["k"] == "Ins":
        return "%s: the text %s of value %s with %r inserted (%s) = %s decoded %s as %s - the inserted bytes were ignored" % (
            e["name"], txt(e["base"]), short(e["val"]), e["garbage"], e["where"], txt(e["doc"]), e["res"], short(e.get("back")))
    if e["k"] == "RT":
        return "%s value %s%s: text %s, err=%r, read back %s" % (e["name"], short(e["val"]), " HELD BY VALUE (json.Marshal of a non-addressable value)" if e.get("held") else "", txt(e.get("text")), e["err"], short(e.get("back")))
    if e["k"] == "Panic":
        return "%s %s PANIC %s on %s" % (e["name"], e.get("op"), e.get("panic", "")[:120], txt(e.get("doc") or e.get("text")) if (e.get("doc") or e.get("text")) else short(e.get("val")))
    return "%s document %s (%s) decoded %s as %s" % (e["name"], txt(e.get("doc")), e.get("mut"), e.get("res"), short(e.get("back")))


def short(x):
    s = json.dumps(x)
    return s if len(s) <= 200 else s[:200] + "..."


def vector_of(e):
    """A vector that re-executes the event through `vh replay C20` (None if the value cannot be rebuilt)."""
    if e["k"] == "Seq" or (e["k"] == "Panic" and "before" in e):
        if "prev" not in e or "val" not in e or (e["ty"]["t"] in ("inbody", "outbody") and any(x["sum"] not in ("", "Unknown") for x in (e["prev"], e["val"]))):
            return None
        return {"k": "Seq", "ty": e["ty"], "cls": "replay", "vals": [e["prev"], e["val"]]}
    if e["k"] == "RT" or e["k"] == "Ins" or (e["k"] == "Panic" and "val" in e):
        if e["ty"]["t"] in ("inbody", "outbody") and e["val"]["sum"] not in ("", "Unknown"):
            return None
        v = {"k": "RT", "ty": e["ty"], "cls": e.get("cls", "replay"), "val": e["val"]}
        if e["k"] == "Ins" or "garbage" in e:
            v["mut"] = 1       # re-run the mutated / garbage documents of this value's text as well
        return v
    v = {"k": "Dec", "ty": e["ty"], "cls": e.get("cls", e.get("mut", "replay")), "doc": e["doc"]}
    if e["k"] == "Direct" or e.get("op") == "unmarshal-direct":
        v["direct"] = 1
    return v


# ------------------------------------------------------------------------------------------------
def strip_begin(path):
    """Begin records attribute a fatal crash to its input; the specification does not see them."""
    out = path + ".j"
    nb = 0
    with open(path) as f, open(out, "w") as g:
        for l in f:
            if '"k":"Begin"' in l[-90:]:      # {"direct":..,"doc":"..","k":"Begin","name":".."}
                nb += 1
                continue
            g.write(l)
    return out, nb


def last_begin(path):
    last = None
    try:
        for l in open(path):
            if '"k":"Begin"' in l[-90:]:
                last = l
    except OSError:
        pass
    return json.loads(last) if last else None


def judge(ck, path, name):
    """Validate one recorded trace with JsonForms_Trace. Returns (events, rejected events with their line)."""
    jp, _ = strip_begin(path)
    res, rejected = ck.validate_segments("JsonForms_Trace", "trace/JsonForms_Trace.cfg", jp, timeout=2400, name=name, heap_gb=4)
    diag = [t for t in res.tuples("OOD")] + [t for t in res.tuples("WFDIFF")] + [t for t in res.tuples("SEQBROKEN")]
    evs = [json.loads(l) for l in open(jp + ".tlc")]
    if diag:
        t = diag[0]
        raise Infra("%s at line %d of %s (harness / recogniser problem, not a verdict): %s" % (t[0], t[1], jp, short(evs[t[1] - 1])))
    lines = sorted(t[1] for t in res.tuples("REJ"))
    nrej = sum(r["length"] - r["accepted"] for r in rejected)
    if nrej != len(lines):
        raise Infra("REJ lines (%d) and segment counters (%d) disagree for %s" % (len(lines), nrej, jp))
    obs = {}
    for t in res.tuples("OBS"):      # accepted documents that encode no value of the type: counted, never a verdict
        e = evs[t[1] - 1]
        lab = "%s:%s" % (fam(e["name"]), dec_reason(e["ty"], e))
        obs[lab] = obs.get(lab, 0) + 1
    OBS[name] = obs
    return evs, [(i, evs[i - 1]) for i in lines]


OBS = {}


def overlay_hook(ck):
    """Sensitivity experiments only: VERIF_C20_OVERLAY=<go overlay json> rebuilds the harness against mutated copies
    of /repo source files (nothing in /repo is touched; a normal run never sets the variable)."""
    ov = os.environ.get("VERIF_C20_OVERLAY")
    if ov:
        log("building the harness with overlay %s (sensitivity experiment)" % ov)
        vlib.sh(["go", "build", "-tags", "verif", "-overlay", ov, "-o", ck.vh, "./cmd/vh"], cwd=vlib.HARNESS, env=vlib.GOENV, timeout=900)
        ck.notes.append("harness built with source overlay " + ov)


def gen_vectors(ck):
    res = ck.tlc_or_infra("JsonForms_Gen", "gen/JsonForms_Gen_%s.cfg" % ("thorough" if ck.thorough else "quick"), workers=4,
                          timeout=1200, name="gen", heap_gb=6)
    vecs = res.vecs()
    if len(vecs) + 1 != res.distinct:
        raise Infra("generator: %d vectors for %d states" % (len(vecs), res.distinct))
    leads = sorted({t[1] for t in res.tuples("LEAD")})
    return vecs, leads


def run(ck):
    ck.assumptions += ["TLC + CommunityModules Json", "Prim converters (HexToBytes, StrToCodes, CodesToStr, DecToBits, BitsToDec, StrToBits, BitsToStr, BitsToBytes, BytesToHex)",
                       "the harness's Build (abstract value -> Go value) and Dump (Go value -> abstract value; no JSON code of the library), self-checked Dump(Build(v)) = v",
                       "domains: UintN 0..2^N-1, IntN two's complement, VarUInteger N < 2^(8(N-1)), Grams/SignedCoins/Magic as the Go types (64/64/32 bit), bit strings of any length (classes up to 1023 bits), "
                       "AddrExtern/AddrVar <= 511 bits, anycast depth 1..30 with prefix < 2^depth, cells = finite trees of ordinary cells and library cells",
                       "'malformed JSON is reported as an error' is read narrowly: a syntactically valid document that denotes no value of the type need not be rejected (counted as an observation)",
                       "Maybe[Maybe[T]] is not covered: the library ships no such instantiation, so it is not a library type",
                       "excluded as the statement says: AddrVar with 256 bits and a workchain in -128..127 (any outcome but a panic / invalid text is accepted)",
                       "observed at MarshalJSON (raw text, judged by the specification's recogniser) / json.Marshal (must not fail) / json.Unmarshal; direct UnmarshalJSON calls only for panics"]
    ck.build_vh()
    overlay_hook(ck)
    # registered Go types
    tp = os.path.join(ck.work, "types.ndjson")
    ck.run_vh(["types", "C20", "-out", tp])
    gotypes = {json.dumps(e["ty"], sort_keys=True): e["name"] for e in vlib.read_ndjson(tp) if e["k"] == "Type"}

    # ---- S->C: generate, replay
    vecs, leads = gen_vectors(ck)
    vtypes = {json.dumps(v["ty"], sort_keys=True) for v in vecs if v["k"] == "RT"}
    if vtypes != set(gotypes):
        raise Infra("types of the specification and of the harness differ: only spec %s, only harness %s" % (
            sorted(vtypes - set(gotypes))[:5], sorted(set(gotypes) - vtypes)[:5]))
    vp = os.path.join(ck.work, "vectors.ndjson")
    vlib.write_ndjson(vp, vecs)
    ck.extra["types"] = len(gotypes)
    ck.extra["vectors_rt"] = sum(1 for v in vecs if v["k"] == "RT")
    ck.extra["vectors_outside_docs"] = sum(1 for v in vecs if v["k"] == "Dec")
    ck.extra["vectors_reuse_pairs"] = sum(1 for v in vecs if v["k"] == "Seq")
    ck.extra["vectors_mutation_bases"] = sum(1 for v in vecs if v.get("mut") == 1)
    ck.extra["model_leads"] = leads
    for l in leads:
        ck.notes.append("model-level lead (not a verdict): " + l)
    shards = 8

    def do_replay(i):
        out = os.path.join(ck.work, "vec_%02d.ndjson" % i)
        p = ck.run_vh(["replay", "C20", "-in", vp, "-out", out, "-shard", i, "-shards", shards], check=False, mem_gb=4)
        return out, p

    def do_drive(i):
        out = os.path.join(ck.work, "drv_%02d.ndjson" % i)
        p = ck.run_vh(["drive", "C20", "-out", out, "-tier", ck.tier, "-seed", ck.seed, "-shard", i, "-shards", shards], check=False, mem_gb=4)
        return out, p

    jobs = [("vec", i) for i in range(shards)] + [("drv", i) for i in range(shards)]
    outs = vlib.parallel(lambda j: do_replay(j[1]) if j[0] == "vec" else do_drive(j[1]), jobs)
    traces = []
    for (kind, i), (out, p) in zip(jobs, outs):
        if p.returncode != 0:
            lb = last_begin(out)
            tail = (p.stdout or "")[-1500:]
            if lb is not None and ("fatal error" in tail or "goroutine" in tail or p.returncode < 0 or p.returncode == 2 and "panic" in tail):
                # the process died inside a call on this document: an unrecoverable crash is the worst kind of panic
                ck.report("C20:%s:malformed-doc:fatal-crash" % fam(lb["name"]), "the harness process died (exit %d) while %s decoded %r: %s" % (
                    p.returncode, lb["name"], bytes.fromhex(lb["doc"])[:200], tail[-400:]),
                    {"kind": "crash", "begin": lb, "output": tail})
                ck.notes.append("driver %s %d died; its input was reported, the rest of that shard is not judged" % (kind, i))
                continue
            raise Infra("vh %s %d failed (%d):\n%s" % (kind, i, p.returncode, tail))
        traces.append((kind, i, out))

    # ---- judge every trace with TLC
    results = vlib.parallel(lambda t: judge(ck, t[2], "%s%02d" % (t[0], t[1])), traces, n=8)
    seen_rt, seen_dec, seen_seq = set(), set(), set()
    nrt = ndec = nrej = nseq = nins = nbyval = 0
    pending = []
    nexcl = 0
    for (kind, i, out), (evs, rej) in zip(traces, results):
        for e in evs:
            if e["k"] == "RT":
                nrt += 1
                nbyval += 1 if e.get("byval") or e.get("held") else 0
                a = e["val"] if e["ty"]["t"] == "addr" else None
                if a and a["kind"] == "var" and len(a["bits"]) == 256 and -128 <= int(a["wc"]) <= 127:
                    nexcl += 1
                seen_rt.add((e["name"], json.dumps(e["val"], sort_keys=True)))
            elif e["k"] in ("Dec", "Direct"):
                ndec += 1
                seen_dec.add((e["name"], e["doc"], e["k"]))
            elif e["k"] == "Ins":
                nins += 1
                seen_seq.add((e["name"], e["doc"], "ins"))
            elif e["k"] == "Seq":
                nseq += 1
                seen_seq.add((e["name"], e.get("prevdoc", ""), e["doc"], e["how"]))
        for line, e in rej:
            nrej += 1
            pending.append((e["ty"]["t"] in ("maybe", "any"), kind != "vec", len(json.dumps(e)), os.path.basename(out), line, e))
    # the stored example of a key: prefer the plain type over a wrapper, a TLC-enumerated value over a random one, short over long
    pending.sort(key=lambda t: t[:3])
    for _, _, _, tname, line, e in pending:
        e2 = {k: v for k, v in e.items() if k != "base"}
        ck.report(key_of(e), describe(e), {"kind": "event", "trace": tname, "line": line, "event": e2, "vector": vector_of(e)})
    if kind_count(results, "RT") == 0 or ndec == 0:
        raise Infra("vacuous run: no round trips or no decodes recorded")
    # every registered type was exercised in both directions
    names_rt = {n for n, _ in seen_rt}
    missing = set(gotypes.values()) - names_rt
    if missing:
        raise Infra("types without a judged round trip: %s" % sorted(missing)[:8])
    ck.extra["round_trips_judged"] = nrt
    ck.extra["round_trips_also_marshalled_held_by_value"] = nbyval
    if nbyval < nrt // 2:
        raise Infra("vacuous run: only %d of %d round trips were also marshalled by value" % (nbyval, nrt))
    ck.extra["decodes_judged"] = ndec
    ck.extra["reused_target_steps_judged"] = nseq
    ck.extra["garbage_insertions_judged"] = nins
    ck.extra["events_rejected"] = nrej
    tot = {}
    for nm, o in OBS.items():
        if nm.startswith(("vec", "drv")):
            for k, v in o.items():
                tot[k] = tot.get(k, 0) + v
    ck.extra["observations_accepted_documents_outside_domain"] = dict(sorted(tot.items()))
    if tot:
        ck.notes.append("observation (not a violation; the statement does not require rejection): %d accepted documents that encode no value "
                        "of the type, by class: %s" % (sum(tot.values()), ", ".join("%s x%d" % kv for kv in sorted(tot.items()))))
    ck.extra["excluded_class_round_trips_recorded"] = nexcl
    ck.extra["rejected_by_key"] = {v["key"]: v.get("count", 1) for v in ck.violations}
    evs0 = results[0][0]
    ck.sample({"direction": "S->C", "vector": next(v for v in vecs if v["ty"]["t"] == "int" and v["cls"] == "msb" and v["ty"]["n"] == 257)})
    ck.sample({"direction": "S->C judged run", "event": trim(next(e for e in evs0 if e["k"] == "RT"))})
    ck.sample({"direction": "C->S", "event": trim(next(e for e in results[shards][0] if e["k"] == "RT"))})
    ck.sample({"direction": "C->S mutated", "event": trim(next(e for e in results[shards][0] if e["k"] == "Dec" and e["mut"] == "subst"))})

    canaries(ck, results, traces)
    return ck.finish(rule=RULE, distinct=len(seen_rt) + len(seen_dec) + len(seen_seq))


def kind_count(results, k):
    return sum(1 for evs, _ in results for e in evs if e["k"] == k)


def trim(e):
    return {k: (v if len(json.dumps(v)) < 300 else json.dumps(v)[:300] + "...") for k, v in e.items() if k not in ("base", "inner")}


def canaries(ck, results, traces):
    """Corrupt one logged field at a time in events that were accepted; TLC must reject exactly that line."""
    pool = [e for evs, rej in results for e in evs]
    rejected_ids = {id(e) for evs, rej in results for _, e in rej}

    def pick(pred):
        for e in pool:
            if id(e) not in rejected_ids and pred(e):
                return copy.deepcopy(e)
        raise Infra("no event for a canary")

    flip = lambda s: s[:-1] + ("1" if s[-1] != "1" else "2")
    cases = []
    e = pick(lambda e: e["k"] == "RT" and e["ty"]["t"] == "uint" and e["ty"]["n"] == 64 and e["err"] == "")
    e["back"] = flip(e["back"]); cases.append(("RT: read-back value altered", e))
    e = pick(lambda e: e["k"] == "RT" and e["ty"]["t"] == "addr" and e["err"] == "" and e["val"]["kind"] == "std")
    e["back"] = dict(e["back"], wc=str(int(e["back"]["wc"]) ^ 1)); cases.append(("RT: address workchain altered", e))
    e = pick(lambda e: e["k"] == "RT" and e["ty"]["t"] == "bits" and e["err"] == "")
    e["text"] = e["text"][:-2]; cases.append(("RT: text loses its closing quote (not well-formed JSON)", e))
    e = pick(lambda e: e["k"] == "RT" and e["ty"]["t"] == "inbody" and e["err"] == "" and e["val"]["sum"] == "Unknown")
    e["text"] = e["text"].replace("2c", "2c2c", 1); cases.append(("RT: doubled comma inside an object", e))
    e = pick(lambda e: e["k"] == "RT" and e["err"] == "" and e["ty"]["t"] == "grams")
    e["err"] = "unmarshal"; cases.append(("RT: decoder error", e))
    e = pick(lambda e: e["k"] == "Dec" and e["res"] == "err" and e["gowf"] == 0 and e["ty"]["t"] == "uint" and e["ty"]["n"] == 8)
    e["res"] = "ok"; e["back"] = "1"; cases.append(("Dec: truncated document accepted", e))
    e = pick(lambda e: e["k"] == "Dec" and e["res"] == "ok" and "encof" in e and e["ty"]["t"] == "int" and e["ty"]["n"] == 32 and e["back"] not in ("0",))
    e["back"] = flip(e["back"]); cases.append(("Dec: the encoder's own text read as another integer", e))
    e = pick(lambda e: e["k"] == "Dec" and e["res"] == "ok" and "encof" in e and e["ty"]["t"] == "addr" and e["encof"]["kind"] == "std" and e["encof"]["any"] == 0)
    e["res"] = "err"; e["back"] = ""; cases.append(("Dec: the encoder's own text refused", e))
    e = pick(lambda e: e["k"] == "Seq" and e["res"] == "ok" and e["ty"]["t"] == "maybe" and e["step"] > 1 and e["how"] == "var" and e.get("val", {}).get("ex") == 0 and e["before"] != e["fresh"])
    e["after"] = e["before"]; cases.append(("Seq: the reused target keeps its old state", e))
    e = pick(lambda e: e["k"] == "Seq" and e["res"] == "ok" and e["ty"]["t"] == "addr" and e["how"] == "slice")
    e["after"] = e["after"].replace("SumType:", "SumType:\"x\"+", 1); cases.append(("Seq: reused slice element differs from a fresh decode", e))
    e = pick(lambda e: e["k"] == "Seq" and e["res"] == "err" and e["freshres"] == "err")
    e["res"] = "ok"; cases.append(("Seq: a refused document is accepted by the reused target", e))
    e = pick(lambda e: e["k"] == "Ins" and e["res"] == "err" and e["gowf"] == 1 and e["ty"]["t"] in BYTES | INT and e["where"] == "end")
    e["res"] = "ok"; e["back"] = e["val"]; cases.append(("Ins: garbage before the closing quote ignored", e))
    e = pick(lambda e: e["k"] == "Dec" and e["res"] == "err")
    e["k"] = "Panic"; cases.append(("Panic event", e))
    e = pick(lambda e: e["k"] == "RT" and "canon" in e and e["err"] == "")
    e["canon"] = e["canon"].replace("{", "{1", 1); cases.append(("S->C: expected cell altered", e))
    body = [{"k": "Reset", "name": "canary"}]
    want = []
    for nm, e in cases:
        body.append(pick(lambda x: x["k"] == "RT" and x["err"] == "" and x["ty"]["t"] == "uint"))   # an accepted line in between
        body.append(e)
        want.append(len(body))
    p = os.path.join(ck.work, "canary.ndjson")
    vlib.write_ndjson(p, body + [{"k": "End", "events": len(body)}])
    st, tr, ok, evn = ck.states, ck.transitions, ck.traces_ok, ck.evaluations
    res, rejected = ck.validate_segments("JsonForms_Trace", "trace/JsonForms_Trace.cfg", p, name="canary")
    ck.states, ck.transitions, ck.traces_ok, ck.evaluations = st, tr, ok, evn
    got = sorted(t[1] for t in res.tuples("REJ"))
    for (nm, _), line in zip(cases, want):
        ck.canary(nm, line in got)
    if got != want:
        raise Infra("canary trace: rejected lines %s, expected %s" % (got, want))


def replay(ck, path):
    """Re-execute the stored event against the current tree and let TLC judge it again."""
    ck.build_vh()
    rp = json.load(open(path))["replay"]
    if rp.get("kind") == "crash":
        print("the harness process died while decoding: %s" % json.dumps(rp["begin"]))
        print("re-run bin/check C20 to reproduce (the document is in the replay file)")
        return 1
    v = rp.get("vector")
    print("stored event: " + describe(rp["event"]))
    if v is None:
        print("this value (a known message body) cannot be rebuilt from its abstract form; re-run bin/check C20 --seed <seed of the file>")
        return 0
    vp, out = os.path.join(ck.work, "v.ndjson"), os.path.join(ck.work, "o.ndjson")
    vlib.write_ndjson(vp, [v])
    ck.run_vh(["replay", "C20", "-in", vp, "-out", out])
    evs, rej = judge(ck, out, "replay")
    for e in evs:
        if e["k"] != "Reset":
            print("now: " + describe(e))
    if rej:
        print("VIOLATION property=C20 replay=%s   # %s" % (path, key_of(rej[0][1])))
        return 1
    print("accepted by JsonForms_Trace")
    return 0
