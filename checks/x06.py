# X06 (extra check): TON DNS resolution (contract/dns) against spec/TonDns.tla and the global configuration file
# (config.ParseConfig) against spec/NetConfig.tla.
import json, os, copy, collections
import vlib, xgrow
from vlib import Infra, log

RULE = ("DNS, S->C: TonDns_Gen enumerates names (well-formed names incl. 126 bytes, UTF-8, punctuation; '' and '.'; upper case; empty "
        "components, bytes 1..32, over-long names; names with a zero byte) x scripted resolver conversations (whole name resolved, two hops, "
        "a hop back to the same resolver, a cut inside a component, one byte per hop) x 28 malformed answers at the first or second hop "
        "(executor error, exit codes, stack shapes, resolved_bits 0 / not a multiple of 8 / beyond the subdomain / negative / 2^40 / 2^63, "
        "final answers without a dictionary, partial answers without a next resolver, addr_none / addr_extern as next resolver) and "
        "computes with TonDns!Converse the calls (resolver, subdomain) TEP-81 requires and the outcome; the harness runs dns.DNS.Resolve "
        "with an executor that plays the script; the runner compares call by call. C->S: random names and random scripted conversations "
        "are recorded (every RunSmcMethodByID with resolver, method id, stack layout, subdomain bytes, category, and the answer given; "
        "the return with error / panic / records) as one segment per Resolve; TonDns_Trace accepts a line only if it is the step the "
        "protocol allows in the current state: first call to the root with the internal representation of the name (components reversed, "
        "zero-terminated), method 123660, category 0 on top; every later call to the resolver named by the previous answer with exactly "
        "the rest of the bytes; the return is what TonDns!Decide says about the last answer; a name with a zero byte is never sent; a "
        "panic is never accepted. Configuration, S->C: NetConfig_Gen writes configuration files (ip edges of int32 incl. negative, the "
        "unsigned spelling, out-of-range ip / port, other key types, lists, field order, unknown sections, white space, JSON escapes, "
        "missing / null liteservers) with the required list of host:port / key; C->S: random server lists are serialised, read by "
        "config.ParseConfig / ParseConfigFile and judged by NetConfig_Trace (ip int32 -> dotted quad of its two's complement, order kept, "
        "unsupported key types dropped, no usable server = error). distinct = distinct vectors + distinct recorded conversations / files.")
DNS_TRACE = ("TonDns_Trace", "trace/TonDns_Trace.cfg")
CFG_TRACE = ("NetConfig_Trace", "trace/NetConfig_Trace.cfg")


def samples(ck):
    r = ck.rng
    import base64
    keys = [base64.b64encode(bytes(r.getrandbits(8) for _ in range(32))).decode() for _ in range(4)] + ["/+/+" * 10 + "/+8="]
    return {"keys": keys, "ips": [str(r.randrange(-2 ** 31, 2 ** 31)) for _ in range(12 if ck.thorough else 4)]}


def ans_kind(a, dlen):
    """label of a scripted answer for finding keys (not a judgement)"""
    if a["fail"]:
        return "executor-error"
    if a["exit"] not in (0, 1):
        return "exit-code"
    if a["shape"] != "pair":
        return "stack-shape:" + a["shape"]
    b = int(a["bits"])
    cell = a["cell"].split(":")[0] + (":" + a["cell"].split(":")[1] if a["cell"] in ("next:none", "next:ext") else "")
    if b < 0 or b // 8 > dlen:
        return "resolved-bits-out-of-range"
    if b == 0:
        return "resolved-bits-zero"
    if b % 8:
        return "resolved-bits-not-bytes"
    return ("final:" if b // 8 == dlen else "partial:") + cell


def segments(evs):
    """[{reset, calls, ret, lines}] from a flat list of events"""
    segs = []
    for e in evs:
        if e["k"] == "Reset":
            segs.append({"reset": e, "calls": [], "ret": None, "events": [e]})
        elif segs:
            segs[-1]["events"].append(e)
            if e["k"] == "Call":
                segs[-1]["calls"].append(e)
            elif e["k"] == "Ret":
                segs[-1]["ret"] = e
    return segs


def seg_key(seg, rejected_index=None):
    """finding key of a conversation the specification does not allow"""
    ret, calls = seg["ret"], seg["calls"]
    ev_ = seg["events"][rejected_index] if rejected_index is not None and rejected_index < len(seg["events"]) else ret
    if ev_ is not None and ev_["k"] == "Call" and ev_ is calls[0]:
        return "X06:Resolve:name:" + seg.get("namecls", "?")
    if ev_ is not None and ev_["k"] == "Call":
        i = calls.index(ev_)
        return "X06:Resolve:answer:%s:continuation" % ans_kind(calls[i - 1]["ans"], len(calls[i - 1]["d"]) // 2)
    if not calls:
        return "X06:Resolve:name:" + seg.get("namecls", "?")
    return "X06:Resolve:answer:" + ans_kind(calls[-1]["ans"], len(calls[-1]["d"]) // 2)


def compare_dns(v, seg):
    """None, or (clause, note) saying why the recorded conversation is not the one the vector requires"""
    ret, calls = seg["ret"], seg["calls"]
    if ret is None:
        return "no-return"
    if ret["panic"]:
        return "panic"
    cls = v["namecls"]
    if cls == "nul":
        return None if not calls and ret["err"] else "zero-byte-name-sent"
    if cls == "lax":
        return None
    if not calls:
        return "no-call" if cls == "ok" else (None if ret["err"] else "no-call")
    if calls[0]["d"] not in v["first"]:
        return "first-subdomain"
    if calls[0]["d"] != v["calls"][0]["d"] or any(a["shape"] == "three" for a in v["script"]) or v["do"] == "exhausted":
        return None        # another admitted opening / a lenient answer: the trace specification judges the rest
    got = [(c["res"], c["d"]) for c in calls]
    want = [(c["res"], c["d"]) for c in v["calls"]]
    if got != want:
        return "calls"
    if v["do"] == "ok":
        return None if ret["err"] == "" and sorted(ret["recs"].split(",")) == sorted(v["recs"].split(",")) else "records"
    if v["do"] == "err":
        return None if ret["err"] else "malformed-answer-accepted"
    return None


def compare_cfg(v, e):
    if e["panic"]:
        return "panic"
    if not v["det"]:
        return None
    if v["err"]:
        return None if e["err"] else "accepted"
    if e["err"]:
        return "refused"
    return None if e["out"] == [[x["host"], x["key"]] for x in v["list"]] else "list"


def judge_dns(ck, evs, name):
    """run TonDns_Trace over the conversations; returns ({segment index: rejected line index}, name classes, first-call notes)"""
    evs = [{k: x for k, x in e.items() if k != "vec"} for e in evs]
    p = os.path.join(ck.work, name + ".ndjson")
    vlib.write_ndjson(p, evs + [{"k": "End", "events": len(evs)}])
    res, rejected = ck.validate_segments(*DNS_TRACE, p, timeout=2400, name=name)
    starts = [i + 1 for i, e in enumerate(evs) if e["k"] == "Reset"]
    idx = {s: i for i, s in enumerate(starts)}
    rej = {idx[r["seg"]]: r["accepted"] for r in rejected}
    ncls, first = {}, {}
    for t in res.tuples("NOTE"):
        s = max(x for x in starts if x <= t[1])
        if str(t[2]).startswith("first:"):
            first[idx[s]] = t[2][6:]
        else:
            ncls[idx[s]] = t[2]
    return rej, ncls, first


def text(h):
    return bytes.fromhex(h).decode("latin1")


def run(ck):
    ck.assumptions += ["TLC + CommunityModules Json", "Prim converters only; the internal representation, the protocol and the dotted quad are TLA+ "
                       "(TonDns and NetConfig extend TextForms for CRC-16 / decimal / two's complement)",
                       "the resolver contracts are played by a scripted executor (contract/dns takes an executor interface); record cells and "
                       "the record dictionary are built by the harness (tlb.Marshal of tlb.Hashmap) and mapped back by kind and payload",
                       "names outside TEP-81 other than those with a zero byte (empty components, bytes 1..32, > 126 bytes, upper case) are "
                       "not decided: what is sent for them is recorded as an observation",
                       "a result stack with a third value below the pair: the library may use the pair or refuse",
                       "a fully resolved name whose cell is null / not a dictionary: not decided (failure or any records)",
                       "liteapi.Client.DnsResolve / GetRootDNS need a lite server and are not covered",
                       "configuration: ip / port outside int32 (uint32 spelling: free) / 0..65535 are outside the format: recorded, not judged"]
    ck.build_vh()
    obs = collections.defaultdict(set)
    # ------------------------------------------------------------------ S->C
    gens = vlib.parallel(lambda a: xgrow.gen(ck, a[0], a[1], samples(ck) if a[0] == "NetConfig_Gen" else {"none": 0}, a[2], workers=2),
                         [("TonDns_Gen", "gen/TonDns_Gen.cfg", "gen_dns"), ("NetConfig_Gen", "gen/NetConfig_Gen.cfg", "gen_cfg")], n=2)
    vecs = gens[0] + gens[1]
    for i, v in enumerate(vecs):
        v["vec"] = i
    classes = collections.Counter(v["cl"] for v in vecs)
    need = {"dns:ok:whole", "dns:ok:two-hops", "dns:ok:byte-by-byte", "dns:ok:mal1:bits-over", "dns:ok:mal2:bits-neg", "dns:name:nul", "dns:name:self",
            "dns:name:case", "dns:name:lax", "cfg:one:ok", "cfg:one:free", "cfg:one:skip", "cfg:one:lax", "cfg:list", "cfg:variant:extra"}
    if not need <= set(classes):
        raise Infra("generators lack classes: %s" % sorted(need - set(classes)))
    ck.extra["vectors"] = {"dns": len(gens[0]), "cfg": len(gens[1]), "classes": len(classes)}
    evs, pending, p = xgrow.run_vectors(ck, "X06", vecs, "vectors")
    if p.returncode != 0 and not pending:
        raise Infra("replay failed: " + p.stdout[-2000:])
    if pending:
        ck.report("X06:crash", "the process died inside a call: %s" % json.dumps(pending)[:600], {"kind": "vectors", "vectors": vecs[-1:]})
    devs = [e for e in evs if e["k"] in ("Reset", "Call", "Ret")]
    cevs = [e for e in evs if e["k"] == "Cfg"]
    segs = segments(devs)
    rej, ncls, first = judge_dns(ck, devs, "trace_gen_dns")
    cverd, cnotes = xgrow.judge(ck, *CFG_TRACE, cevs, "trace_gen_cfg")
    byvec = {s["reset"]["vec"]: (i, s) for i, s in enumerate(segs)}
    cbyvec = {e["vec"]: (e, ok) for e, ok in zip(cevs, cverd)}
    for v in vecs:
        if v["k"] == "dns":
            if v["vec"] not in byvec:
                raise Infra("vector %d was not replayed" % v["vec"])
            i, s = byvec[v["vec"]]
            s["namecls"] = v["namecls"]
            why = compare_dns(v, s)
            if why or i in rej:
                conv = [(c["res"][:8], text(c["d"]), c["ans"]["bits"], c["ans"]["cell"][:20]) for c in s["calls"]]
                ck.report(seg_key(s, rej.get(i)), "vector %d (%s): name %r: the specification requires calls %s then %s %s; the library did %s -> %s [%s%s]" % (
                    v["vec"], v["cl"], text(v["name"])[:60], [(c["res"][:8], text(c["d"])) for c in v["calls"]], v["do"], v["recs"], conv,
                    json.dumps({k: x for k, x in (s["ret"] or {}).items() if k in ("err", "panic", "recs")}), why or "",
                    "" if i not in rej else "; line %d of the conversation rejected by TonDns_Trace" % rej[i]), {"kind": "vectors", "vectors": [v]})
            else:
                ck.traces_ok += 1
            if s["calls"] and v["namecls"] in ("case", "self", "lax"):
                obs["Resolve of a name outside TEP-81 (%s) sends" % v["namecls"]].add("%r -> %r" % (text(v["name"])[:24], text(s["calls"][0]["d"])[:24]))
            if s["ret"] and s["ret"]["err"] == "" and any(a["shape"] == "three" for a in v["script"]):
                obs["Resolve accepts a result stack with extra values below the pair"].add(v["cl"])
        else:
            if v["vec"] not in cbyvec:
                raise Infra("vector %d was not replayed" % v["vec"])
            e, ok = cbyvec[v["vec"]]
            why = compare_cfg(v, e)
            if why or not ok:
                ck.report("X06:ParseConfig:%s" % v["cl"], "vector %d (%s): file %s: the specification requires %s; the library returned %s [%s%s]" % (
                    v["vec"], v["cl"], text(v["json"])[:300], "an error" if v["err"] else [[x["host"], x["key"]] for x in v["list"]] if v["det"] else "a reading NetConfig admits",
                    json.dumps({k: e[k] for k in ("err", "panic", "out")})[:500], why or "", "" if ok else "; rejected by NetConfig_Trace"),
                    {"kind": "vectors", "vectors": [v]})
            else:
                ck.traces_ok += 1
            for srv, cl, in zip(v["servers"], v["classes"]):
                if cl == "lax" and e["err"] == "" and any(o[1] == srv["key"] for o in e["out"]):
                    obs["ParseConfig lists a server whose ip / port is outside the format"].add(
                        "ip %s port %s -> %s" % (srv["ip"], srv["port"], next(o[0] for o in e["out"] if o[1] == srv["key"])))
                if cl == "free" and e["err"] == "" and any(o[1] == srv["key"] for o in e["out"]):
                    obs["ParseConfig accepts the unsigned spelling of an ip"].add("ip %s -> %s" % (srv["ip"], next(o[0] for o in e["out"] if o[1] == srv["key"])))
    ck.evaluations += len(vecs)
    ck.sample({"direction": "S->C", "vector": next(v for v in vecs if v["cl"] == "dns:ok:two-hops")})
    ck.sample({"direction": "S->C", "vector": next(v for v in vecs if v["cl"] == "cfg:one:ok" and v["servers"][0]["ip"].startswith("-"))})
    # canaries S->C
    def first_of(pred):
        return next(copy.deepcopy(v) for v in vecs if pred(v))
    c = first_of(lambda v: v["cl"] == "dns:ok:two-hops"); c["calls"][1]["d"] = c["calls"][0]["d"]
    ck.canary("S->C: expected second subdomain not shortened", compare_dns(c, byvec[c["vec"]][1]) is not None)
    c = first_of(lambda v: v["cl"] == "dns:ok:two-hops"); c["calls"][1]["res"] = c["root"]
    ck.canary("S->C: expected next resolver altered", compare_dns(c, byvec[c["vec"]][1]) is not None)
    c = first_of(lambda v: v["cl"] == "dns:ok:whole"); c["recs"] = "wallet:1"
    ck.canary("S->C: expected records altered", compare_dns(c, byvec[c["vec"]][1]) is not None)
    c = first_of(lambda v: v["cl"] == "dns:ok:whole"); c["do"] = "err"
    ck.canary("S->C: good conversation expected to fail", compare_dns(c, byvec[c["vec"]][1]) is not None)
    c = first_of(lambda v: v["cl"] == "dns:ok:mal1:bits7"); c["do"] = "ok"; c["recs"] = "wallet:1"
    ck.canary("S->C: malformed answer expected to be accepted", compare_dns(c, byvec[c["vec"]][1]) is not None)
    c = first_of(lambda v: v["cl"] == "dns:ok:whole"); c["first"] = [xgrow.flip_hex(x, 0) for x in c["first"]]
    ck.canary("S->C: expected internal representation altered", compare_dns(c, byvec[c["vec"]][1]) is not None)
    c = first_of(lambda v: v["cl"] == "cfg:one:ok" and v["servers"][0]["ip"] == "-1"); c["list"][0]["host"] = c["list"][0]["host"].replace("255.255.255.255", "255.255.255.254")
    ck.canary("S->C: expected host altered", compare_cfg(c, cbyvec[c["vec"]][0]) is not None)
    c = first_of(lambda v: v["cl"] == "cfg:list" and v["det"] and len(v["list"]) >= 2 and v["list"][0] != v["list"][-1]); c["list"] = c["list"][::-1]
    ck.canary("S->C: expected server order reversed", compare_cfg(c, cbyvec[c["vec"]][0]) is not None)
    c = first_of(lambda v: v["cl"] == "cfg:one:skip"); c["err"] = False; c["list"] = [{"host": "1.2.3.4:5", "key": "x"}]
    ck.canary("S->C: unsupported key type expected to be listed", compare_cfg(c, cbyvec[c["vec"]][0]) is not None)

    # ------------------------------------------------------------------ C->S
    shards = 2

    def drive(t):
        part, i = t
        tp = os.path.join(ck.work, "trace_%s_%02d.ndjson" % (part, i))
        p_ = ck.run_vh(["drive", "X06", "-part", part, "-out", tp, "-tier", ck.tier, "-seed", ck.seed, "-shard", i, "-shards", shards], check=False)
        es, pend_ = xgrow.strip(tp, tp + ".s")
        if pend_:
            ck.report("X06:crash", "driver died inside a call: %s" % json.dumps(pend_)[:600],
                      {"kind": "drive", "part": part, "shard": i, "shards": shards, "seed": ck.seed, "tier": ck.tier})
        elif p_.returncode != 0:
            raise Infra("driver failed: " + p_.stdout[-2000:])
        return part, i, es
    jobs = [(pt, i) for pt in ("dns", "cfg") for i in range(shards)]
    traces = vlib.parallel(drive, jobs, n=4)

    def val(t):
        part, i, es = t
        if part == "dns":
            return judge_dns(ck, es, "trace_dns_%02d" % i)
        return xgrow.judge(ck, *CFG_TRACE, es, "trace_cfg_%02d" % i, timeout=2400)
    results = vlib.parallel(val, traces, n=4)
    distinct = set()
    kinds = collections.Counter()
    good_segs, good_cfg = [], []
    for (part, i, es), res in zip(traces, results):
        rp = {"kind": "drive", "part": part, "shard": i, "shards": shards, "seed": ck.seed, "tier": ck.tier}
        if part == "dns":
            rej_, ncls_, first_ = res
            for j, s in enumerate(segments(es)):
                s["namecls"] = ncls_.get(j, "?")
                distinct.add(json.dumps([s["reset"]["name"]] + [c["ans"] for c in s["calls"]], sort_keys=True))
                last = ans_kind(s["calls"][-1]["ans"], len(s["calls"][-1]["d"]) // 2) if s["calls"] else "no-call"
                kinds["dns:%s:%s" % (s["namecls"], last.split(":")[0] if s["namecls"] == "ok" else "*")] += 1
                if j in first_ and s["namecls"] in ("case", "self", "lax"):
                    obs["Resolve of a name outside TEP-81 (%s) sends" % s["namecls"]].add("%r -> %r" % (text(s["reset"]["name"])[:24], text(s["calls"][0]["d"])[:24]))
                if s["ret"] and s["ret"]["err"] == "" and any(c["ans"]["shape"] == "three" for c in s["calls"]):
                    obs["Resolve accepts a result stack with extra values below the pair"].add("random")
                if j in rej_:
                    conv = [(c["res"][:8], text(c["d"])[:40], c["ans"]["bits"], c["ans"]["cell"][:20], c["ans"]["shape"], c["ans"]["exit"]) for c in s["calls"]]
                    ck.report(seg_key(s, rej_[j]), "recorded conversation is not one TonDns allows (line %d of it rejected): name %r (%s): %s -> %s" % (
                        rej_[j], text(s["reset"]["name"])[:60], s["namecls"], conv, json.dumps(s["ret"])[:300]), dict(rp, index=j))
                else:
                    good_segs.append(s)
        else:
            verd, nts = res
            for j, (e, ok) in enumerate(zip(es, verd)):
                nt = nts.get(j, [["?", 0]])[0]
                kinds["cfg:%s:%s" % (nt[0], "err" if e["err"] else "ok")] += 1
                distinct.add(e["json"])
                if not ok:
                    ck.report("X06:ParseConfig:%s" % nt[0], "recorded reading is not one NetConfig admits: %s" % json.dumps(e)[:1200], dict(rp, index=j))
                else:
                    good_cfg.append(dict(e, _cls=nt[0]))
                    if nt[0] == "lax" and e["err"] == "":
                        for srv in e["servers"]:
                            if any(o[1] == srv[3] for o in e["out"]) and not (-2 ** 31 <= int(srv[0]) < 2 ** 32 and 0 <= int(srv[1]) < 65536):
                                obs["ParseConfig lists a server whose ip / port is outside the format"].add(
                                    "ip %s port %s -> %s" % (srv[0], srv[1], next(o[0] for o in e["out"] if o[1] == srv[3])))
    ck.extra["events_by_class"] = dict(kinds)
    needk = ["dns:ok:final", "dns:ok:partial", "dns:ok:executor-error", "dns:ok:resolved-bits-not-bytes", "dns:nul:*", "dns:lax:*", "cfg:ok:ok", "cfg:none:err"]
    if not ck.violations and any(kinds[k] == 0 for k in needk):
        raise Infra("recorded traces lack classes: %s" % [k for k in needk if kinds[k] == 0])
    ck.extra["observations"] = {k: sorted(v)[:10] for k, v in sorted(obs.items())}
    for k, v in sorted(obs.items()):
        ck.notes.append("observation (not a verdict): %s: %s" % (k, "; ".join(sorted(v)[:5])))
    if good_segs:
        s = next((s for s in good_segs if len(s["calls"]) == 2), good_segs[0])
        ck.sample({"direction": "C->S", "conversation": s["events"]})

    # canaries C->S (DNS): every segment is one corruption of an accepted conversation
    def pick(pred):
        return next((copy.deepcopy(s["events"]) for s in good_segs if pred(s)), None)
    cs = []

    def mut(nm, pred, f):
        c = pick(pred)
        if c is None:
            if not ck.violations:
                raise Infra("no accepted conversation for canary '%s'" % nm)
            return
        r_ = f(c)
        cs.append(("C->S: " + nm, r_ if r_ is not None else c))
    two = lambda s: len(s["calls"]) >= 2 and s["namecls"] == "ok" and s["ret"]["err"] == "" and all(c["ans"]["shape"] == "pair" for c in s["calls"])
    one_ok = lambda s: s["namecls"] == "ok" and s["ret"]["err"] == "" and "," in s["ret"]["recs"] and all(c["ans"]["shape"] == "pair" for c in s["calls"])
    failed = lambda s: s["namecls"] == "ok" and s["calls"] and s["ret"]["err"] != "" and ans_kind(s["calls"][-1]["ans"], len(s["calls"][-1]["d"]) // 2) in (
        "resolved-bits-not-bytes", "exit-code", "executor-error", "resolved-bits-zero")
    ctrl = pick(two)
    if ctrl is not None:
        cs.append(("control", ctrl))
    mut("one byte of the first subdomain altered", two, lambda c: c[1].update(d=xgrow.flip_hex(c[1]["d"], 0, 1)))
    mut("components not reversed", lambda s: two(s) and b"." in bytes.fromhex(s["reset"]["name"]),
        lambda c: c[1].update(d=(b"\x00".join(bytes.fromhex(c[0]["name"]).split(b".")) + b"\x00").hex()))
    mut("second call sent to another resolver", two, lambda c: c[2].update(res=c[1]["res"] if c[2]["res"] != c[1]["res"] else "0:" + "11" * 32))
    mut("second subdomain not shortened", two, lambda c: c[2].update(d=c[1]["d"], dbits=c[1]["dbits"]))
    mut("second subdomain shortened by one byte too many", two, lambda c: c[2].update(d=c[2]["d"][2:], dbits=c[2]["dbits"] - 8))
    mut("second call missing", two, lambda c: [c[0], c[1]] + c[3:])
    mut("one record dropped from the result", one_ok, lambda c: c[-1].update(recs=c[-1]["recs"].split(",", 1)[1]))
    mut("success logged as failure", one_ok, lambda c: c[-1].update(err="e", recs=""))
    mut("failure after a malformed answer logged as success", failed, lambda c: c[-1].update(err="", recs="wallet:1"))
    mut("method id altered", two, lambda c: c[1].update(method=85143))
    mut("category altered", two, lambda c: c[1].update(cat="1"))
    mut("stack order swapped", two, lambda c: c[1].update(top="VmStkSlice", below="VmStkInt"))
    mut("panic logged", one_ok, lambda c: c[-1].update(panic="x"))
    if cs:
        flat = [e for _, c in cs for e in c]
        st = (ck.states, ck.transitions, ck.traces_ok, ck.evaluations)
        crej, _, _ = judge_dns(ck, flat, "canaries_dns")
        ck.states, ck.transitions, ck.traces_ok, ck.evaluations = st
        for i, (nm, _) in enumerate(cs):
            if nm == "control":
                if i in crej:
                    raise Infra("canary control conversation (untouched, accepted before) was rejected")
            else:
                ck.canary(nm, i in crej)
    # canaries C->S (configuration)
    cc = []

    def cmut(nm, pred, f):
        c = next(({k: copy.deepcopy(x) for k, x in e.items() if k != "_cls"} for e in good_cfg if pred(e)), None)
        if c is None:
            if not ck.violations:
                raise Infra("no accepted reading for canary '%s'" % nm)
            return
        f(c); cc.append(("C->S: " + nm, c))
    listed = lambda e: e["err"] == "" and len(e["out"]) >= 2 and e["_cls"] == "ok"        # every server of the file is decided
    cmut("control", listed, lambda c: None)
    cmut("one octet of a logged host altered", listed, lambda c: c["out"][0].__setitem__(0, ("9" + c["out"][0][0]) if not c["out"][0][0].startswith("9") else c["out"][0][0][1:]))
    cmut("logged key altered", listed, lambda c: c["out"][1].__setitem__(1, "A" + c["out"][1][1][1:] if c["out"][1][1][0] != "A" else "B" + c["out"][1][1][1:]))
    cmut("one server dropped from the logged list", listed, lambda c: c.update(out=c["out"][1:]))
    cmut("logged list reordered", lambda e: listed(e) and e["out"][0] != e["out"][1], lambda c: c.update(out=c["out"][::-1]))
    cmut("success logged as failure", listed, lambda c: c.update(err="e", out=[]))
    cmut("file without usable server logged as read", lambda e: e["err"] != "" and all(s[2] != "pub.ed25519" for s in e["servers"]), lambda c: c.update(err="", out=[["1.2.3.4:5", "k"]]))
    cmut("logged file text altered", listed, lambda c: c.update(json=xgrow.flip_hex(c["json"], 20, 1)))
    cmut("panic logged", listed, lambda c: c.update(panic="x"))
    if cc:
        st = (ck.states, ck.transitions, ck.traces_ok, ck.evaluations)
        cverd2, _ = xgrow.judge(ck, *CFG_TRACE, [c for _, c in cc], "canaries_cfg")
        ck.states, ck.transitions, ck.traces_ok, ck.evaluations = st
        for (nm, _), ok in zip(cc, cverd2):
            if nm == "C->S: control":
                if not ok:
                    raise Infra("canary control reading (untouched, accepted before) was rejected")
            else:
                ck.canary(nm, not ok)
    return ck.finish(rule=RULE, distinct=len(vecs) + len(distinct))


def replay(ck, path):
    ck.build_vh()
    rp = json.load(open(path))["replay"]
    bad = False
    if rp["kind"] == "vectors":
        vs = rp["vectors"]
        evs, pending, p = xgrow.run_vectors(ck, "X06", vs, "replay")
        bad = bool(pending)
        devs = [e for e in evs if e["k"] in ("Reset", "Call", "Ret")]
        cevs = [e for e in evs if e["k"] == "Cfg"]
        if devs:
            rej, _, _ = judge_dns(ck, devs, "replay_dns")
            for i, s in enumerate(segments(devs)):
                v = next(v for v in vs if v["vec"] == s["reset"]["vec"])
                why = compare_dns(v, s)
                print(json.dumps(s["events"])[:2500], why or "", "rejected by TonDns_Trace" if i in rej else "")
                bad = bad or bool(why) or i in rej
        if cevs:
            verd, _ = xgrow.judge(ck, *CFG_TRACE, cevs, "replay_cfg")
            for e, ok in zip(cevs, verd):
                v = next(v for v in vs if v["vec"] == e["vec"])
                why = compare_cfg(v, e)
                print(json.dumps(e)[:2000], why or "", "" if ok else "rejected by NetConfig_Trace")
                bad = bad or bool(why) or not ok
    else:
        tp = os.path.join(ck.work, "replay.ndjson")
        ck.run_vh(["drive", "X06", "-part", rp["part"], "-out", tp, "-tier", rp["tier"], "-seed", rp["seed"], "-shard", rp["shard"], "-shards", rp["shards"]], check=False)
        es, pend = xgrow.strip(tp, tp + ".s")
        bad = bool(pend)
        if rp["part"] == "dns":
            rej, _, _ = judge_dns(ck, es, "replay_dns")
            for i, s in enumerate(segments(es)):
                if i in rej:
                    print(json.dumps(s["events"])[:2500]); bad = True
        else:
            verd, _ = xgrow.judge(ck, *CFG_TRACE, es, "replay_cfg", timeout=2400)
            for e, ok in zip(es, verd):
                if not ok:
                    print(json.dumps(e)[:2000]); bad = True
    if bad:
        print("VIOLATION property=X06 replay=%s" % path)
        return 1
    print("replayed: accepted")
    return 0
