# X07 (extra check): token transfer bodies (contract/jetton, contract/nft) against spec/TokenTransfer.tla (TEP-74 / TEP-62).
import json, os, copy, collections, random
import vlib, xgrow
from vlib import Infra, log

RULE = ("S->C: TokenTransfer_Gen enumerates transfers -- jetton amounts 0, 1, byte boundaries, 2^64, 2^120-1 x destination workchains x "
        "response address present / addr_none x custom payload present / absent x forward payload present / absent x forward amounts, and "
        "the NFT transfer likewise -- and writes the body TEP-74 / TEP-62 require (op, query_id free, VarUInteger 16 with the shortest "
        "length, addr_std / addr_none, Maybe ^Cell, Either Cell ^Cell) as root bits with 64 wildcard positions plus the referenced trees; "
        "the harness builds the message with TransferMessage.ToInternal / ItemTransferMessage.ToInternal and the runner compares the root "
        "bits and the referenced trees. C->S: random transfers (random payload trees, amounts around every byte boundary and beyond "
        "2^120) are recorded with the body as a cell table and the envelope (destination, value, bounce, mode); TokenTransfer_Trace reads "
        "the body field by field (either form of forward_payload is admitted), compares every field and both payload trees with the "
        "arguments, requires the envelope to be a bounceable message with the attached value to the sender's jetton wallet / the item "
        "with send mode 3, and requires a refusal when an amount does not fit VarUInteger 16. A panic is never accepted. "
        "distinct = distinct vectors + distinct recorded transfers.")
TRACE = ("TokenTransfer_Trace", "trace/TokenTransfer_Trace.cfg")


def rand_tree(r, depth=0):
    """cell rows of a small random tree, root first"""
    rows = []

    def mk(d):
        i = len(rows)
        rows.append({"b": "".join(r.choice("01") for _ in range(r.choice([0, 1, 7, 8, 32, 100, 267]))), "x": 0, "r": []})
        for _ in range(r.randrange(0, 3) if d < 2 else 0):
            rows[i]["r"].append(mk(d + 1))
        return i
    mk(depth)
    return rows


def samples(ck):
    r = ck.rng
    addrs = ["-1:" + "%064x" % r.getrandbits(256), "0:" + "%064x" % r.getrandbits(256), "0:" + "00" * 31 + "01", "0:" + "%064x" % r.getrandbits(256)]
    return {"addrs": addrs, "payloads": [[{"b": "", "x": 0, "r": []}], [{"b": "00000000" + "01100001" * 5, "x": 0, "r": []}]] + [rand_tree(r) for _ in range(3)]}


def tree_str(rows, i=0):
    return "%d{%s[%s]}" % (rows[i]["x"], rows[i]["b"], "".join(tree_str(rows, k) + "," for k in rows[i]["r"]))


def compare(v, e):
    if e["panic"]:
        return "panic"
    if e["err"]:
        return "refused"
    if not e["body"]:
        return "no-body"
    root = e["body"][0]
    if len(root["b"]) != len(v["root"]) or any(a != "?" and a != b for a, b in zip(v["root"], root["b"])):
        return "root-bits"
    if [tree_str(e["body"], k) for k in root["r"]] != v["refs"]:
        return "references"
    m = e["msg"]
    if m["dest"] != v["to"] or m["value"] != v["attached"] or not m["bounce"] or e["mode"] != 3:
        return "envelope"
    return None


def run(ck):
    ck.assumptions += ["TLC + CommunityModules Json", "Prim converters only; the TL-B writers / readers are TLA+ (TokenTransfer extends TextForms; Boc!TreeStr "
                       "compares subtrees)", "the jetton wallet lookup is played by a stub of the blockchain interface",
                       "query_id is free (the library takes the clock)", "required arguments are present (a nil JettonAmount is outside the quantifier)"]
    ck.build_vh()
    smp = samples(ck)
    vecs = xgrow.gen(ck, "TokenTransfer_Gen", "gen/TokenTransfer_Gen.cfg", smp, "gen", workers=4)
    # the NFT builder takes the response address by value: the addr_none cases exist for jettons only
    vecs = [v for v in vecs if not (v["kind"] == "nft" and v["resp"] == "none")]
    for i, v in enumerate(vecs):
        v["vec"] = i
    classes = collections.Counter(v["cl"] for v in vecs)
    if len(classes) < 8:
        raise Infra("generator incomplete: %s" % dict(classes))
    ck.extra["vectors"] = dict(classes)
    evs, pending, p = xgrow.run_vectors(ck, "X07", vecs, "vectors")
    if pending or p.returncode != 0 or len(evs) != len(vecs):
        raise Infra("replay died (%s): %s" % (pending, p.stdout[-2000:]))
    verd, notes = xgrow.judge(ck, *TRACE, evs, "trace_gen")
    obs = collections.defaultdict(set)
    for v, e, ok in zip(vecs, evs, verd):
        why = compare(v, e)
        key = "X07:%s.ToInternal:%s" % ("TransferMessage" if v["kind"] == "jetton" else "ItemTransferMessage", v["cl"].split(":", 1)[1])
        if why in ("root-bits", "references") and ok:
            obs["another admitted serialisation of the body"].add(v["cl"])
        elif why or not ok:
            ck.report(key, "vector %d (%s): amount %s fwd %s resp %s: TEP requires root %s with %d references; the library gave %s [%s%s]" % (
                v["vec"], v["cl"], v["amount"], v["fwdTon"], v["resp"][:12], v["root"], v["nrefs"], json.dumps({k: e[k] for k in ("err", "panic", "mode", "msg", "body")})[:900],
                why or "", "" if ok else "; rejected by TokenTransfer_Trace"), {"kind": "vectors", "vectors": [v]})
        else:
            ck.traces_ok += 0
    ck.evaluations += len(vecs)
    ck.sample({"direction": "S->C", "vector": {k: x for k, x in next(v for v in vecs if v["cl"] == "jetton:custom:fwd").items() if k not in ("custom", "fwd")}})
    c = copy.deepcopy(vecs[0]); c["root"] = c["root"][:-1] + ("1" if c["root"][-1] == "0" else "0")
    ck.canary("S->C: expected forward_payload bit flipped", compare(c, evs[0]) is not None)
    c = copy.deepcopy(vecs[0]); c["root"] = ("1" if c["root"][0] == "0" else "0") + c["root"][1:]
    ck.canary("S->C: expected op altered", compare(c, evs[0]) is not None)
    i = next(i for i, v in enumerate(vecs) if v["nrefs"] == 2)
    c = copy.deepcopy(vecs[i]); c["refs"] = c["refs"][::-1]
    ck.canary("S->C: expected references swapped", c["refs"][0] == c["refs"][1] or compare(c, evs[i]) is not None)
    c = copy.deepcopy(vecs[i]); c["attached"] = "7"
    ck.canary("S->C: expected attached value altered", compare(c, evs[i]) is not None)

    shards = 2

    def drive(i):
        tp = os.path.join(ck.work, "trace_%02d.ndjson" % i)
        p_ = ck.run_vh(["drive", "X07", "-out", tp, "-tier", ck.tier, "-seed", ck.seed, "-shard", i, "-shards", shards], check=False)
        es, pend_ = xgrow.strip(tp, tp + ".s")
        if pend_:
            ck.report("X07:crash", "driver died inside a call: %s" % json.dumps(pend_)[:600], {"kind": "drive", "shard": i, "shards": shards, "seed": ck.seed, "tier": ck.tier})
        elif p_.returncode != 0:
            raise Infra("driver failed: " + p_.stdout[-2000:])
        return es
    traces = vlib.parallel(drive, range(shards), n=4)
    results = vlib.parallel(lambda t: xgrow.judge(ck, *TRACE, t[1], "trace_%02d" % t[0], timeout=2400), list(enumerate(traces)), n=4)
    kinds = collections.Counter()
    distinct = set()
    good = []
    for i, (es, (vd, nts)) in enumerate(zip(traces, results)):
        for j, (e, ok) in enumerate(zip(es, vd)):
            nt = nts.get(j, [["?", "?"]])[0]
            kinds["%s:%s" % (nt[0], nt[1])] += 1
            distinct.add(json.dumps({k: e[k] for k in ("kind", "amount", "dest", "resp", "custom", "fwd", "fwdTon")}, sort_keys=True))
            if ok:
                good.append(e)
            else:
                ck.report("X07:%s.ToInternal:%s" % ("TransferMessage" if e["kind"] == "jetton" else "ItemTransferMessage", "panic" if e["panic"] else nt[1]),
                          "recorded transfer is not what TokenTransfer requires (%s): %s" % (nt, json.dumps(e)[:1500]),
                          {"kind": "drive", "shard": i, "shards": shards, "seed": ck.seed, "tier": ck.tier, "index": j})
    ck.extra["events_by_class"] = dict(kinds)
    if not ck.violations and (kinds["jetton:fwd-in-ref"] == 0 or kinds["nft:fwd-in-ref"] + kinds["nft:fwd-inline"] == 0 or kinds["jetton:amount>=2^120"] == 0):
        raise Infra("recorded traces lack classes: %s" % dict(kinds))
    for k, v in sorted(obs.items()):
        ck.notes.append("observation (not a verdict): %s: %s" % (k, ", ".join(sorted(v)[:6])))
    if good:
        ck.sample({"direction": "C->S", "event": {k: x for k, x in next(e for e in good if e["err"] == "").items() if k not in ("custom", "fwd")}})
    # canaries C->S
    cl = []

    def mut(nm, pred, f):
        c = next((copy.deepcopy(e) for e in good if pred(e)), None)
        if c is None:
            if not ck.violations and not ck.known_hit:
                raise Infra("no accepted line for canary '%s'" % nm)
            return
        f(c); cl.append(("C->S: " + nm, c))
    full = lambda e: e["err"] == "" and e["kind"] == "jetton" and e["custom"] and e["fwd"] and e["resp"] != "none"

    def flipbit(c, pos):
        b = c["body"][0]["b"]; c["body"][0]["b"] = b[:pos] + ("1" if b[pos] == "0" else "0") + b[pos + 1:]
    mut("control", full, lambda c: None)
    mut("one bit of the op altered", full, lambda c: flipbit(c, 31))
    mut("one bit of the amount altered", full, lambda c: flipbit(c, 32 + 64 + 4 + 3))
    mut("one bit of the destination altered", full, lambda c: flipbit(c, len(c["body"][0]["b"]) - 300))
    mut("last bit (forward_payload tag) altered", full, lambda c: flipbit(c, len(c["body"][0]["b"]) - 1))
    mut("references swapped", lambda e: full(e) and tree_str(e["custom"]) != tree_str(e["fwd"]), lambda c: c["body"][0].update(r=c["body"][0]["r"][::-1]))
    mut("one bit of the logged custom payload altered", lambda e: full(e) and e["custom"][0]["b"], lambda c: c["custom"][0].update(b=("1" if c["custom"][0]["b"][0] == "0" else "0") + c["custom"][0]["b"][1:]))
    mut("logged amount altered", full, lambda c: c.update(amount=str(int(c["amount"]) + 1)))
    mut("logged forward amount altered", full, lambda c: c.update(fwdTon=str(int(c["fwdTon"]) + 256)))
    mut("envelope destination altered", full, lambda c: c["msg"].update(dest=c["dest"] if c["dest"] != c["to"] else "0:" + "22" * 32))
    mut("envelope value altered", full, lambda c: c["msg"].update(value=str(int(c["msg"]["value"]) + 1)))
    mut("bounce flag cleared", full, lambda c: c["msg"].update(bounce=False))
    mut("send mode altered", full, lambda c: c.update(mode=128))
    mut("unrepresentable amount logged as written", lambda e: e["err"] != "", lambda c: c.update(err=""))
    mut("panic logged", full, lambda c: c.update(panic="x"))
    if cl:
        st = (ck.states, ck.transitions, ck.traces_ok, ck.evaluations)
        cverd, _ = xgrow.judge(ck, *TRACE, [c for _, c in cl], "canaries")
        ck.states, ck.transitions, ck.traces_ok, ck.evaluations = st
        for (nm, _), ok in zip(cl, cverd):
            if nm == "C->S: control":
                if not ok:
                    raise Infra("canary control line (untouched, accepted before) was rejected")
            else:
                ck.canary(nm, not ok)
    return ck.finish(rule=RULE, distinct=len(vecs) + len(distinct))


def replay(ck, path):
    ck.build_vh()
    rp = json.load(open(path))["replay"]
    bad = False
    if rp["kind"] == "vectors":
        vs = rp["vectors"]
        evs, pending, p = xgrow.run_vectors(ck, "X07", vs, "replay")
        bad = bool(pending)
        verd, _ = xgrow.judge(ck, *TRACE, evs, "replay_trace") if evs else ([], {})
        for v, e, ok in zip(vs, evs, verd):
            why = compare(v, e)
            print(json.dumps(e)[:2000], why or "", "" if ok else "rejected by TokenTransfer_Trace")
            bad = bad or not ok or (bool(why) and why not in ("root-bits", "references"))
    else:
        tp = os.path.join(ck.work, "replay.ndjson")
        ck.run_vh(["drive", "X07", "-out", tp, "-tier", rp["tier"], "-seed", rp["seed"], "-shard", rp["shard"], "-shards", rp["shards"]], check=False)
        es, pend = xgrow.strip(tp, tp + ".s")
        bad = bool(pend)
        verd, _ = xgrow.judge(ck, *TRACE, es, "replay_trace", timeout=2400)
        for e, ok in zip(es, verd):
            if not ok:
                print(json.dumps(e)[:2000]); bad = True
    if bad:
        print("VIOLATION property=X07 replay=%s" % path)
        return 1
    print("replayed: accepted")
    return 0
