# C06: bit-string / cell primitives behave like an ideal bit list (spec/Bits.tla).
import json, os, copy
import vlib
from vlib import Infra, log

RULE = ("S->C: TLC behaviours of Bits_Gen (BFS over every 2..3-step behaviour of a 12-bit string; -simulate over 1023-bit "
        "cells, <=40 steps) replayed through boc.BitString/boc.Cell comparing bits, cursor, result and error after each step. "
        "C->S: recorded calls (fast-path grid: every cursor offset 0..1023 x every width 0..64 for Pick/Read(U)Int, byte/bit/"
        "big-int reads, Fift hex for every length 0..1023, random op sequences over 11 capacities) validated by Bits_Trace; "
        "a segment is non-trivial if it contains at least one read that returns data; distinct = distinct segments.")


def key_of(e):
    k = e.get("k", "?")
    if k == "ReadBigUint":
        return "C06:ReadBigUint:w%8!=0" if e.get("w", 0) % 8 else "C06:ReadBigUint:w%8==0"
    if k == "ReadBigInt":
        return "C06:ReadBigInt:(w-1)%8!=0" if (e.get("w", 1) - 1) % 8 else "C06:ReadBigInt:(w-1)%8==0"
    return "C06:" + k


def gen_vectors(ck):
    vecs = []
    depth = 3 if ck.thorough else 2
    cfg = open(os.path.join(vlib.SPEC, "gen/Bits_Gen_small.cfg")).read().replace("Depth = 2", "Depth = %d" % depth)
    p = os.path.join(ck.work, "Bits_Gen_small.cfg")
    open(p, "w").write(cfg)
    res = ck.tlc_or_infra("Bits_Gen", os.path.relpath(p, vlib.SPEC), workers=8, timeout=1500, name="gen_bfs", heap_gb=8)
    for h in res.vecs():
        vecs.append({"cell": False, "cap": 12, "steps": h})
    nbfs = len(vecs)
    nsim = 1500 if ck.thorough else 150
    per = nsim // 4
    def sim(i):
        return ck.tlc_or_infra("Bits_Gen", "gen/Bits_Gen_sim.cfg", workers=1, name="gen_sim%d" % i, timeout=1500,
                               args=["-simulate", "num=%d" % per, "-depth", "45", "-seed", str(ck.seed * 100 + i)])
    for i, res in enumerate(vlib.parallel(sim, range(4))):
        for j, h in enumerate(res.vecs()):
            vecs.append({"cell": (i + j) % 2 == 0, "cap": 1023, "steps": h})
    for i, v in enumerate(vecs):
        v["vec"] = i
    if not vecs or len(vecs) == nbfs:
        raise Infra("generator produced no simulation vectors")
    return vecs, nbfs


def run(ck):
    ck.assumptions += ["TLC 1.8.0 + CommunityModules Json", "Prim converters (DecToBits, StrToBits, BitsToStr, HexToBytes)",
                       "domain: unsigned values fit their width, signed widths >= 1, big-int widths >= 1 (out-of-range inputs excluded)",
                       "a failed write may leave a prefix of the new bits appended; a failed read leaves the bits intact"]
    ck.build_vh()
    # ---- S->C
    vecs, nbfs = gen_vectors(ck)
    vp = os.path.join(ck.work, "vectors.ndjson")
    vlib.write_ndjson(vp, vecs)
    rp = os.path.join(ck.work, "replay_out.ndjson")
    ck.run_vh(["replay", "C06", "-in", vp, "-out", rp])
    results = vlib.read_ndjson(rp)
    if results[-1].get("k") != "End" or results[-1]["events"] != len(vecs):
        raise Infra("replay did not finish")
    nmatch = 0
    for r_ in results[:-1]:
        if r_["match"]:
            nmatch += 1
        else:
            e = r_["exp"]
            ck.report(key_of(e), "replayed TLC behaviour diverges at step %d: spec requires %s, code gave %s" % (r_["i"], json.dumps(e), json.dumps(r_["got"])),
                      {"kind": "vector", "vector": vecs[r_["vec"]], "step": r_["i"], "got": r_["got"]})
    ck.traces_ok += nmatch
    ck.evaluations += len(vecs)
    ck.sample({"direction": "S->C", "vector": vecs[nbfs]["steps"][:3]})
    ck.extra["vectors_bfs"] = nbfs
    ck.extra["vectors_sim"] = len(vecs) - nbfs
    # canary for S->C: corrupt the expectation of one vector; the replay must flag it
    cv = copy.deepcopy(next(v for v in vecs if any(s.get("out") for s in v["steps"])))
    for s_ in cv["steps"]:
        if s_.get("out"):
            s_["out"] = s_["out"][:-1] + ("0" if s_["out"][-1] == "1" else "1")
            break
    cp, cr = os.path.join(ck.work, "canary_vec.ndjson"), os.path.join(ck.work, "canary_out.ndjson")
    vlib.write_ndjson(cp, [cv])
    ck.run_vh(["replay", "C06", "-in", cp, "-out", cr])
    ck.canary("S->C: flipped expected read result", not vlib.read_ndjson(cr)[0]["match"])

    # ---- C->S
    # thorough traces are ~8x larger: more, smaller shards and fewer TLC processes at a time keep memory bounded
    shards = 96 if ck.thorough else vlib.NCPU
    def drive(i):
        tp = os.path.join(ck.work, "trace_%02d.ndjson" % i)
        ck.run_vh(["drive", "C06", "-out", tp, "-tier", ck.tier, "-seed", ck.seed, "-shard", i, "-shards", shards])
        return tp
    traces = vlib.parallel(drive, range(shards), n=8)
    def val(tp):
        return ck.validate_segments("Bits_Trace", "trace/Bits_Trace.cfg", tp, timeout=3000, name="trace_" + os.path.basename(tp)[6:8])
    nontrivial = 0
    for tp, (res, rejected) in zip(traces, vlib.parallel(val, traces, n=8 if ck.thorough else vlib.NCPU)):
        for rj in rejected:
            e = rj["event"]
            ck.report(key_of(e), "recorded call is not a step of Bits: segment at line %d accepted %d of %d events; rejected event %s" % (
                rj["seg"], rj["accepted"], rj["length"], json.dumps(e)), {"kind": "trace", "segment": rj["segment"], "rejected_index": rj["accepted"]})
    evs = vlib.read_ndjson(traces[0])
    ck.sample({"direction": "C->S", "events": evs[2:5]})
    for tp in traces:
        seg_has_read = False
        for l in open(tp):
            if '"k":"Reset"' in l:
                nontrivial += seg_has_read
                seg_has_read = False
            elif '"k":"Read' in l and '"err":""' in l:
                seg_has_read = True
        nontrivial += seg_has_read
    # canaries for C->S: (a) corrupt one logged result, (b) drop one write event
    body = [e for e in evs if e.get("k") != "End"]
    idx = next(i for i, e in enumerate(body) if e["k"] == "PickUint" and e["err"] == "" and e["w"] >= 8)
    c1 = copy.deepcopy(body[:idx + 3]); c1[idx]["out"] = str(int(c1[idx]["out"]) ^ 1)
    idw = next(i for i, e in enumerate(body) if e["k"] == "WriteBitString")
    c2 = copy.deepcopy(body[:idw] + body[idw + 1:idw + 6])
    # (c) an Append that lost the last bit of the nested string
    allevs = [e for tp in traces for e in vlib.read_ndjson(tp)]
    napp = sum(1 for e in allevs if e.get("k") == "Append")
    ngrown = sum(1 for e in allevs if e.get("k") in ("ReadBits", "ReadRemainingBits") and e.get("err") == "" and e.get("out"))
    if napp < 20 or ngrown < 20:
        raise Infra("only %d Append events / %d grown read results were recorded" % (napp, ngrown))
    ck.extra["append_events"], ck.extra["read_results_grown"] = napp, ngrown
    ida = next(i for i, e in enumerate(body) if e["k"] == "Append" and len(e["bits"]) >= 2 and "bin" in e)
    c3 = copy.deepcopy(body[:ida + 1]); c3[ida]["bin"] = c3[ida]["bin"][:-1]
    if c3[ida]["avail"] > 0:
        c3[ida]["avail"] -= 1
    for nm, c, want in (("C->S: flipped logged PickUint result", c1, idx + 1), ("C->S: dropped WriteBitString event", c2, idw + 1),
                        ("C->S: Append that dropped the last bit", c3, ida + 1)):
        p = os.path.join(ck.work, "canary_%d.ndjson" % want)
        vlib.write_ndjson(p, c + [{"k": "End"}])
        st, tr, ok = ck.states, ck.transitions, ck.traces_ok
        _, rej = ck.validate_segments("Bits_Trace", "trace/Bits_Trace.cfg", p, name="canary")
        ck.states, ck.transitions, ck.traces_ok = st, tr, ok
        ck.evaluations -= len(c)
        ck.canary(nm, len(rej) == 1 and rej[0]["line"] == want)
    return ck.finish(rule=RULE, distinct=nontrivial + len(vecs))


def replay(ck, path):
    """Re-execute the vector / segment stored in a replay file against the current tree."""
    ck.build_vh()
    rp = json.load(open(path))["replay"]
    if rp["kind"] == "vector":
        vp, out = os.path.join(ck.work, "v.ndjson"), os.path.join(ck.work, "o.ndjson")
        vlib.write_ndjson(vp, [rp["vector"]])
        ck.run_vh(["replay", "C06", "-in", vp, "-out", out])
        r = vlib.read_ndjson(out)[0]
        print(json.dumps(r))
        if not r["match"]:
            print("VIOLATION property=C06 replay=%s" % path)
            return 1
        return 0
    print("trace segments are re-recorded by the driver; run bin/check C06 to re-judge. Stored segment:")
    print(json.dumps(rp["segment"][rp["rejected_index"]]))
    return 0
