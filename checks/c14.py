# C14: wallet-built messages carry the requested transfers under a valid signature (spec/WalletMsg.tla).
import json, os, copy, re
import vlib
from vlib import Infra, log

RULE = ("S->C: WalletMsg_Gen (TLC, exhaustive over version x message count {0,1,max-1,max,max+1} x seqno class x expiry class x "
        "mode class) emits abstract cases with the required outcome ok / refused; the harness concretises each (keys, destinations, "
        "amounts from the seed), runs it through Wallet.RawSend with a recording blockchain and records a Send event. C->S: random "
        "cases over V3R1..HighLoadV2R2 x fresh keys x seqno / valid-until over uint32 incl. 0, 1, 2^31, 2^32-1 x 0..max messages "
        "(modes 0..255, bounce, amounts, comments up to 3000 bytes, bodies, state-init, workchain, sub-wallet / network id) through "
        "CreateMessageBody (Body events: request = message fields) and RawSend (Send events: request = raw cells; payload bytes captured "
        "from SendMessage; the library's VerifySignature / MessageV5VerifySignature / Decode* / ExtractRawMessages view of its own payload); "
        "wallet v5r1 bodies with extended actions (add / remove extension, signature auth; TLC cases none/1/2/3 actions x 0/1/3 messages x ext/int "
        "and random lists) through walletV5R1.CreateSignedMsgBodyCell, judged as Body events and, wrapped into an external message as "
        "RawSendV2 does, as Send events (in-place first action, reference chain, library's MessageV5 decoder returns the same list); SimpleTransfer grid (amount byte length 0..8: 0, 2^8k-1, 2^8k x comment length 0..140 with every "
        "length 60..80 and 120..130) through CreateMessageBody and Wallet.Send on every version: built, not refused, decodes to the same "
        "destination / amount / bounce / comment wherever the comment is placed; the library's verify / extract / decode also as sequences on "
        "ONE cell object in both orders; Flips events: every bit of the signed root cell and 64 sampled deeper bits changed one at a time with the library's verdict; the "
        "captured wallet messages of the repository's tests as Fixture events. WalletMsg_Trace (TLC) judges every event: BoC parsed by "
        "Boc!Parse, external message and internal messages by block.tlb, body by the version's documented layout (Extract), "
        "EdVerify(pk, hash(SignedPart), sig) with pk re-derived from the seed, not under a second key, each flipped body no longer "
        "verifies (decided by the specification) and the library rejected it, decoded ids / seqno / expiry / messages+modes in order = "
        "request (library decoders: exactly; block.tlb OutList of v5: request or exact reverse, noted), max+1 refused. Non-trivial = an event with at least one message; distinct = distinct (version, n, seqno, expiry, key).")

FAMILY = {"V3R1": "v3", "V3R2": "v3", "V4R1": "v4", "V4R2": "v4", "V5Beta": "v5beta", "V5R1": "v5r1", "HighLoadV2R2": "highload"}
MAXN = {"v3": 4, "v4": 4, "v5beta": 254, "v5r1": 255, "highload": 254}   # only for naming the count class in keys
NSHARDS = 16


def nclass(fam, n):
    if n > MAXN[fam]:
        return "n=max+1"
    return "n=0" if n == 0 else "n=1" if n == 1 else "n>=2"


def keys_of(e, clauses):
    """Violation keys of one rejected event: by wallet family, event kind, failed clause and message-count class."""
    k = e.get("k", "?")
    fam = FAMILY.get(e.get("ver", ""), "unknown")
    if k == "Panic":
        return ["C14:panic:%s:%s" % (fam, e.get("where", "?"))]
    n = e.get("n", 0)
    out = []
    clauses = list(clauses or ["unjudged"])
    if "extract" in clauses:          # the body is not the prescribed layout: what the library's decoders make of it is a consequence
        clauses = [c for c in clauses if c not in ("lib:decode", "lib:extract")]
    if {"lib:decode", "lib:extract", "lib:verify", "extract"} & set(clauses):   # already wrong on a fresh cell: the sequences add nothing
        clauses = [c for c in clauses if c != "lib:seq"] or clauses
    for c in clauses:
        if fam == "highload" and n == 0 and c in ("extract", "lib:decode", "lib:extract"):
            key = "C14:highload:zero_messages"
        elif c == "lib:seq":           # a sequence of library operations on one cell object: by wallet family
            key = "C14:%s:lib:seq" % fam
        elif e.get("grid") and c in ("built", "sent", "msgs"):   # SimpleTransfer amount-width x comment-length grid: the transfer itself
            key = "C14:simple_transfer:%s" % c
        elif e.get("xreq"):            # wallet v5r1 with extended actions, built through CreateSignedMsgBodyCell (Body and Send alike)
            key = "C14:%s:%s:xactions:%s" % (fam, e.get("via", k), c)
        else:
            key = "C14:%s:%s:%s:%s" % (fam, k, c, nclass(fam, n) if fam in MAXN else "?")
        if key not in out:
            out.append(key)
    return out


WHAT = {
    "C14:highload:zero_messages": "highload v2 body with zero messages: the dictionary is written as `1` + reference to an empty cell instead of the empty HashmapE (`0`, no reference); it is not a valid HashmapE 16 and the library's own decoder fails on it",
}


def slim(e, maxlen=6000):
    s = json.dumps(e)
    if len(s) <= maxlen:
        return e
    keep = {k: v for k, v in e.items() if k not in ("body", "rc", "ext", "boc", "flips", "req", "rows", "modes", "lib")}
    keep["truncated"] = s[:maxlen]
    return keep


def gen_vectors(ck):
    cfg = "gen/WalletMsg_Gen_thorough.cfg" if ck.thorough else "gen/WalletMsg_Gen_quick.cfg"
    res = ck.tlc_or_infra("WalletMsg_Gen", cfg, workers=1, timeout=600, name="gen")
    vecs = res.vecs()
    for i, v in enumerate(vecs):
        v["vec"] = i
    txt = open(os.path.join(vlib.SPEC, cfg)).read()
    ncls = 1
    for name in ("SeqClasses", "ExpClasses", "ModeClasses"):
        ncls *= txt.split(name)[1].split("}")[0].count('"') // 2
    want = 7 * 5 * ncls + 3 * 8 * 2                  # + XCases: n {0,1,3} x 8 extended-action lists x {ext, int}
    if len(vecs) != want or len({json.dumps({k: x for k, x in v.items() if k != "vec"}, sort_keys=True) for v in vecs}) != want:
        raise Infra("WalletMsg_Gen emitted %d cases, expected %d distinct" % (len(vecs), want))
    if {v["exp"] for v in vecs} != {"ok", "refused"} or {v["ver"] for v in vecs} != set(FAMILY):
        raise Infra("WalletMsg_Gen is vacuous: outcomes %s" % {v["exp"] for v in vecs})
    if sum(1 for v in vecs if v.get("via") == "x" and v.get("ext")) != 42:
        raise Infra("WalletMsg_Gen: the extended-action cases are missing")
    return vecs


def record(ck, vecs):
    """Per shard: replay the shard's share of the TLC cases and drive the shard's random cases. The recorded events are
    independent of each other, so they are then dealt out to NSHARDS trace files by estimated judging cost (a bit flip costs
    one Ed25519 verification in TLC) - each event keeps the shard that recorded it in "oshard" for replays."""
    order = sorted(vecs, key=lambda v: (-v["n"], v["vec"]))
    def one(i):
        vp = os.path.join(ck.work, "vec_%02d.ndjson" % i)
        vlib.write_ndjson(vp, order[i::NSHARDS])
        rp = os.path.join(ck.work, "rep_%02d.ndjson" % i)
        ck.run_vh(["replay", "C14", "-in", vp, "-out", rp, "-seed", ck.seed], timeout=1200)
        dp = os.path.join(ck.work, "drv_%02d.ndjson" % i)
        ck.run_vh(["drive", "C14", "-out", dp, "-tier", ck.tier, "-seed", ck.seed, "-shard", i, "-shards", NSHARDS], timeout=1200)
        items = []                                  # (cost, file, offset, length): the lines themselves stay on disk
        for p in (rp, dp):
            off, last = 0, b""
            with open(p, "rb") as f:
                for raw in f:
                    ln = len(raw)
                    body = raw.rstrip(b"\n")
                    last = body[:200]
                    if b'"k":"End"' not in body[:40]:
                        k = re.search(rb'"k":"(\w+)"', body).group(1)
                        if k == b"Flips":
                            cost = 0.006 * body.count(b'"bit":')
                        else:
                            m = re.search(rb'"n":(\d+)', body)
                            cost = 0.12 + 0.0015 * (int(m.group(1)) if m else 0)
                        items.append((cost, p, off, len(body), i))
                    off += ln
            if b'"k":"End"' not in last:
                raise Infra("driver output %s has no End record" % p)
        return items
    items = [it for part in vlib.parallel(one, range(NSHARDS), n=NSHARDS) for it in part]
    items.sort(key=lambda it: (-it[0], it[1], it[2]))
    # quick: 8 TLC processes (a JVM start costs ~6 s CPU, as much as judging 40 small events); thorough: 32 smaller traces, judged
    # 10 at a time with 2 GB heaps (a 15 MB trace needs < 1 GB resident)
    bins = [[0.0, []] for _ in range(32 if ck.thorough else 8)]
    for it in items:
        b = min(bins, key=lambda x: x[0])
        b[0] += it[0]
        b[1].append(it)
    files = {}
    traces = []
    for bi, (_, its) in enumerate(bins):
        tp = os.path.join(ck.work, "trace_%02d.ndjson" % bi)
        with open(tp, "wb") as out:
            for _, p, off, ln, shard in its:
                f = files.get(p) or files.setdefault(p, open(p, "rb"))
                f.seek(off)
                body = f.read(ln)
                out.write(body[:-1] + (b',"oshard":%d}\n' % shard))
            out.write(json.dumps({"k": "End", "events": len(its)}).encode() + b"\n")
        traces.append(tp)
    for p, f in files.items():
        f.close()
        os.remove(p)
    return traces


def judge(ck, tp, name, account=True):
    st = (ck.states, ck.transitions, ck.traces_ok, ck.evaluations)
    res, rejected = ck.validate_events("WalletMsg_Trace", "trace/WalletMsg_Trace.cfg", tp, timeout=3000, name=name, heap_gb=2)
    if not account:
        ck.states, ck.transitions, ck.traces_ok, ck.evaluations = st
    notes = {}
    for t in res.notes:
        notes.setdefault(t[1], []).append(t[2:])
    out = []
    for rj in rejected:
        cl = [n[1] for n in notes.get(rj["line"], []) if n and n[0] == "clauses"]
        out.append((rj["line"], rj["event"], cl[0].split(",") if cl and cl[0] else []))
    v5b = sum(1 for ns in notes.values() for n in ns if n and n[0] == "v5beta-verifysignature")
    v5rev = sum(1 for ns in notes.values() for n in ns if n and n[0] == "v5-outlist-reversed")
    return out, (v5b, v5rev)


def run(ck):
    ck.assumptions += ["TLC 1.8.0, CommunityModules Json", "Prim: Sha256, EdVerify, EdPubFromSeed (own BigInteger implementation, RFC 8032 vectors), converters",
                       "Cells!InfoTable (cell hashes) and Boc!Parse as validated by C02 / C01",
                       "fields of an internal message that the request does not choose (ihr_disabled, src, fees, created_lt/at) are left free",
                       "dictionary label forms and keys of a highload body are free (ascending keys < 2^15 = sending order)",
                       "CreateMessageBody beyond the version's limit is outside the statement (only sends must be refused)",
                       "the sub-wallet option is not passed to v5r1 (documented as unused there)",
                       "message order is decided on the library's decoders; the block.tlb OutList of wallet v5 may be the request or its exact reverse (counted in note_v5_outlist_reversed)",
                       "VerifySignature(V5Beta) = 'version not supported' is left free (MessageV5VerifySignature is the library's v5 verifier); counted in note_v5beta_verifysignature_unsupported"]
    ck.build_vh()
    vecs = gen_vectors(ck)
    traces = record(ck, vecs)
    results = vlib.parallel(lambda a: judge(ck, a[1], "trace_%02d" % a[0]), list(enumerate(traces)), n=10 if ck.thorough else 8)
    kinds, distinct, nontrivial, accepted_by_ver, vec_seen = {}, set(), 0, {}, set()
    v5b_total = 0
    fixtures = 0
    nflips = 0
    xaccepted, xrecorded, recorded_by_ver = 0, 0, {}
    ngrid = ngrid_send = nseq = 0
    all_rejected = []
    v5rev_total = 0
    for i, (tp, (rejected, (v5b, v5rev))) in enumerate(zip(traces, results)):
        v5b_total += v5b
        v5rev_total += v5rev
        bad_lines = {ln for ln, _, _ in rejected}
        for ln, line in enumerate(open(tp), 1):
            e = json.loads(line)
            k = e.get("k")
            if k == "End":
                continue
            kinds[k] = kinds.get(k, 0) + 1
            if k in ("Body", "Send") and e.get("grid"):
                ngrid += len(e.get("req", [])) if k == "Body" else 0
                ngrid_send += k == "Send"
            if k == "Send" and e.get("lib", {}).get("seq1"):
                nseq += 1
            if k in ("Body", "Send") and e.get("xreq"):
                xrecorded += 1
                xaccepted += ln not in bad_lines
            if k in ("Body", "Send"):
                recorded_by_ver[e["ver"]] = recorded_by_ver.get(e["ver"], 0) + 1
            if k in ("Body", "Send"):
                distinct.add((e["ver"], e["n"], e["seqno"], e["vu"], e["pk"], k))
                nontrivial += e["n"] > 0
                if ln not in bad_lines:
                    accepted_by_ver[e["ver"]] = accepted_by_ver.get(e["ver"], 0) + 1
            if k == "Send" and "vec" in e:
                vec_seen.add(e["vec"])
            if k == "Fixture":
                fixtures += 1
            if k == "Flips":
                nflips += len(e["flips"])
        for ln, e, clauses in rejected:
            k = e.get("k")
            if k == "Fixture":
                raise Infra("a captured wallet message of the repository (%s) is not accepted by WalletMsg (%s): the transcription of the "
                            "format is wrong" % (e.get("src"), ",".join(clauses)))
            if {"harness", "exp", "quantifier", "spec:self"} & set(clauses):
                raise Infra("harness / generator fault on %s line %d: %s" % (os.path.basename(tp), ln, ",".join(clauses)))
            all_rejected.append((e.get("n", 0), len(json.dumps(e)), e, clauses))
    # report the smallest failing input of every key first (it becomes the replay file)
    for _, _, e, clauses in sorted(all_rejected, key=lambda t: t[:2]):
        k = e.get("k")
        origin = ({"kind": "vector", "vector": vecs[e["vec"]], "seed": ck.seed} if "vec" in e else
                  {"kind": "drive", "tier": ck.tier, "seed": ck.seed, "shard": e.get("oshard", 0), "shards": NSHARDS, "case": e.get("case"), "k": k})
        for key in keys_of(e, clauses):
            what = WHAT.get(key) or "%s event (%s, %d messages) fails clause(s) %s of WalletMsg_Trace" % (k, e.get("ver"), e.get("n", 0), ",".join(clauses))
            if k == "Panic":
                what = "panic in %s: %s" % (e.get("where"), e.get("panic"))
            ck.report(key, what + " [failing input: %s n=%s seqno=%s valid_until=%s via %s]" % (e.get("ver"), e.get("n"), e.get("seqno"), e.get("vu"),
                                                                                       e.get("via") or ("CreateMessageBody" if k == "Body" else "RawSend")) + (
                      " extended actions %s" % [x["kind"] for x in e["xreq"]] if e.get("xreq") else "") + (
                      " SimpleTransfer (amount, comment bytes): %s; error: %s" % ([(r_["amount"], len(r_["comment"]) // 2) for r_ in e.get("req", [])] or e.get("reqerr"),
                                                                                 e.get("errtext")) if e.get("grid") else ""),
                      dict(origin, clauses=clauses, event=slim(e)))
    # vacuity: every TLC case came back, every kind of event was recorded, every version has accepted events
    if vec_seen != set(range(len(vecs))):
        raise Infra("only %d of %d generated cases were replayed" % (len(vec_seen), len(vecs)))
    for k in ("Body", "Send", "Flips", "Fixture"):
        if not kinds.get(k):
            raise Infra("no %s events were recorded" % k)
    if fixtures < 6:
        raise Infra("only %d captured fixtures found in wallet/*_test.go" % fixtures)
    if ngrid < 800 or not ngrid_send or not nseq:
        raise Infra("SimpleTransfer grid / same-cell sequences missing from the recording: %d transfers, %d Send(), %d sequences" % (ngrid, ngrid_send, nseq))
    ck.extra.update({"simple_transfer_grid_transfers": ngrid, "simple_transfer_grid_via_Send": ngrid_send, "same_cell_sequences": 2 * nseq})
    if not xrecorded:
        raise Infra("no event with wallet v5 extended actions was recorded")
    ck.extra["v5r1_extended_action_events_accepted"] = xaccepted
    if set(recorded_by_ver) != set(FAMILY):           # (a version whose every event is rejected is a verdict, not vacuity)
        raise Infra("no event recorded for versions %s" % (set(FAMILY) - set(recorded_by_ver)))
    ck.extra.update({"events_by_kind": kinds, "generated_cases": len(vecs), "fixtures_accepted": fixtures,
                     "note_v5beta_verifysignature_unsupported": v5b_total, "note_v5_outlist_reversed": v5rev_total,
                     "accepted_by_version": accepted_by_ver})
    if v5rev_total:
        ck.notes.append("v5 out-list stored in reverse of block.tlb execution order: %d (observation, not a violation: the library's decoders "
                        "return the requested order, which is what the statement asks)" % v5rev_total)
    if v5b_total:
        ck.notes.append("wallet.VerifySignature has no V5Beta branch: %d correctly signed V5Beta messages were answered with 'version not "
                        "supported' (MessageV5VerifySignature accepts them; left free by the specification)" % v5b_total)
    v0 = next(v for v in vecs if v["exp"] == "refused")
    ck.sample({"direction": "S->C", "generated_case": v0, "replayed_as": "Send event: RawSend returned an error and nothing reached SendMessage (judged by WalletMsg_Trace)"})
    canaries(ck, traces)
    ck.extra["bit_flips_judged"] = nflips
    return ck.finish(rule=RULE, distinct=len(distinct))


def canaries(ck, traces):
    def pick(pred, what):
        for tp in traces:
            for line in open(tp):
                if len(line) > 400000:
                    continue
                e = json.loads(line)
                try:
                    if pred(e):
                        return e
                except (KeyError, IndexError, TypeError):
                    pass
        raise Infra("no event for canary: " + what)
    old = lambda e: FAMILY.get(e.get("ver")) in ("v3", "v4")
    body = pick(lambda e: e["k"] == "Body" and old(e) and e["n"] >= 2 and e["err"] == "" and json.dumps(e["req"][0]) != json.dumps(e["req"][1]), "Body v3/v4 n>=2")
    send = pick(lambda e: e["k"] == "Send" and old(e) and 1 <= e["n"] <= 4 and e["err"] == "", "Send v3/v4")
    over = pick(lambda e: e["k"] == "Send" and e["err"] != "" and e["sent"] == 0, "refused send")
    flips = pick(lambda e: e["k"] == "Flips" and e["orig"] == "ok" and all(f["lib"] == "rej" for f in e["flips"]), "Flips")
    flips["flips"] = flips["flips"][:12]
    v5 = lambda e: FAMILY.get(e.get("ver")) in ("v5beta", "v5r1")
    dj = lambda x: json.dumps(x, sort_keys=True)
    body5 = pick(lambda e: e["k"] == "Body" and v5(e) and 3 <= e["n"] <= 12 and e["err"] == "" and len({dj(r) for r in e["req"][:3]}) == 3, "Body v5 n>=3")
    send5 = pick(lambda e: e["k"] == "Send" and v5(e) and 2 <= e["n"] <= 12 and e["err"] == "" and e["modes"][0] != e["modes"][1] and e["rows"][0] != e["rows"][1], "Send v5 n>=2")
    def flipbit(s, i):
        return s[:i] + ("1" if s[i] == "0" else "0") + s[i + 1:]
    c1 = copy.deepcopy(body); c1["body"]["cells"][0]["b"] = flipbit(c1["body"]["cells"][0]["b"], 100)          # one bit of the signature
    c2 = copy.deepcopy(body); c2["req"][0], c2["req"][1] = c2["req"][1], c2["req"][0]                          # two requested messages swapped
    c3 = copy.deepcopy(body); c3["seqno"] = str((int(c3["seqno"]) + 1) % 2 ** 32)                              # another seqno requested
    c4 = copy.deepcopy(body); c4["req"][0]["amount"] = str(int(c4["req"][0]["amount"]) + 1)                     # another amount requested
    c5 = copy.deepcopy(send); c5["modes"][0] = (c5["modes"][0] + 1) % 256                                      # another mode requested
    c6 = copy.deepcopy(send); c6["pk"], c6["seed"], c6["pk2"], c6["seed2"] = c6["pk2"], c6["seed2"], c6["pk"], c6["seed"]   # keys exchanged
    c7 = copy.deepcopy(send); c7["lib"]["verify2"] = "ok"                                                      # library accepted the second key
    c8 = copy.deepcopy(over); c8["err"] = ""; c8["sent"] = 1                                                   # over-limit send went through
    c9 = copy.deepcopy(flips); c9["flips"][3]["lib"] = "ok"                                                    # library accepted a changed body
    c10 = copy.deepcopy(send); c10["vu"] = str((int(c10["vu"]) + 2 ** 31) % 2 ** 32)                           # another expiry requested
    bodyx = pick(lambda e: e["k"] == "Body" and len(e["xreq"]) >= 2 and e["err"] == "" and dj(e["xreq"][0]) != dj(e["xreq"][1]), "Body with >= 2 extended actions")
    sendx = pick(lambda e: e["k"] == "Send" and len(e["xreq"]) >= 1 and e["err"] == "" and e["xreq"][0]["kind"] != "sigauth", "Send with an extension address")
    c14_ = copy.deepcopy(bodyx); c14_["xreq"][0], c14_["xreq"][1] = c14_["xreq"][1], c14_["xreq"][0]          # two extended actions swapped
    c15 = copy.deepcopy(sendx); c15["xreq"][0]["kind"] = "remove" if c15["xreq"][0]["kind"] == "add" else "add"   # add <-> remove extension
    c16 = copy.deepcopy(sendx); c16["lib"]["xacts"] = c16["lib"]["xacts"][1:]                                  # library decoder lost the first extended action
    c17 = copy.deepcopy(sendx); a = c17["xreq"][0]["addr"]; c17["xreq"][0]["addr"] = a[:-1] + ("0" if a[-1] != "0" else "1")   # another extension address
    gridb = pick(lambda e: e["k"] == "Body" and e.get("grid") and e["err"] == "" and any(len(r_["comment"]) >= 120 for r_ in e["req"]), "grid Body")
    c18 = copy.deepcopy(send); c18["lib"]["seq1"][2]["res"] = "rej"                                            # decode after verify + extract on the same cell failed
    c19 = copy.deepcopy(send); c19["lib"]["seq2"][3]["modes"] = [(m + 1) % 256 for m in c19["lib"]["seq2"][3]["modes"]]   # second decode on the same cell returned other modes
    c20 = copy.deepcopy(gridb); j = next(i for i, r_ in enumerate(c20["req"]) if len(r_["comment"]) >= 120)
    c20["req"][j]["comment"] = c20["req"][j]["comment"][:-2] + ("21" if c20["req"][j]["comment"][-2:] != "21" else "22")   # last comment byte differs
    c11 = copy.deepcopy(body5); c11["req"][0], c11["req"][1] = c11["req"][1], c11["req"][0]                    # v5: two of >= 3 messages swapped
    c12 = copy.deepcopy(send5); c12["modes"][0], c12["modes"][1] = c12["modes"][1], c12["modes"][0]            # v5: modes detached from their messages
    c13 = copy.deepcopy(send5); c13["lib"]["xmodes"].reverse(); c13["lib"]["xrows"].reverse()                  # v5: library decoder returned the reverse
    cs = [c1, c2, c3, c4, c5, c6, c7, c8, c9, c10, c11, c12, c13, c14_, c15, c16, c17, c18, c19, c20]
    p = os.path.join(ck.work, "canary.ndjson")
    vlib.write_ndjson(p, cs + [body, send, over, flips, body5, send5, bodyx, sendx, gridb, {"k": "End"}])
    rejected, _ = judge(ck, p, "canary", account=False)
    got = {ln: cl for ln, _, cl in rejected}
    names = ["signature bit changed", "requested messages swapped", "requested seqno changed", "requested amount changed", "requested mode changed",
             "keys exchanged", "library verdict for the second key = ok", "over-limit send not refused", "library accepted a flipped body",
             "requested expiry changed", "v5: two messages of a >= 3 message list swapped", "v5: modes swapped between two messages",
             "v5: library decoder returns the reversed list", "v5r1: two extended actions swapped", "v5r1: add / remove extension exchanged",
             "v5r1: library decoder lost an extended action", "v5r1: extension address changed",
             "same-cell sequence: decode after verify failed", "same-cell sequence: second decode returned other modes",
             "SimpleTransfer grid: last comment byte changed"]
    for i, nm in enumerate(names, 1):
        ck.canary("C->S: " + nm, i in got)
    ck.canary("C->S: the unmodified events are accepted", all(ln <= len(cs) for ln in got))
    ck.sample({"direction": "C->S", "event": slim(body, 1400)})
    ck.sample({"canary_clauses": {names[i - 1]: got.get(i) for i in range(1, len(cs) + 1)}})


def replay(ck, path):
    """Re-execute the stored case against the current tree and re-judge it with TLC."""
    ck.build_vh()
    rp = json.load(open(path))
    ob = rp["replay"]
    tp = os.path.join(ck.work, "replay.ndjson")
    if ob["kind"] == "vector":
        vp = os.path.join(ck.work, "v.ndjson")
        vlib.write_ndjson(vp, [ob["vector"]])
        ck.run_vh(["replay", "C14", "-in", vp, "-out", tp, "-seed", ob["seed"]])
        evs = vlib.read_ndjson(tp)[:-1]
    else:
        dp = os.path.join(ck.work, "d.ndjson")
        ck.run_vh(["drive", "C14", "-out", dp, "-tier", ob["tier"], "-seed", ob["seed"], "-shard", ob["shard"], "-shards", ob["shards"]])
        evs = [e for e in vlib.read_ndjson(dp) if e.get("case") == ob["case"] and e.get("k") in (ob["k"], "Panic")]
        if not evs:
            raise Infra("case %s was not re-recorded" % ob["case"])
    vlib.write_ndjson(tp, evs + [{"k": "End", "events": len(evs)}])
    rejected, _ = judge(ck, tp, "replay")
    hit = False
    for ln, e, clauses in rejected:
        keys = keys_of(e, clauses)
        print("event %d (%s %s n=%s): rejected, clauses %s -> %s" % (ln, e.get("k"), e.get("ver"), e.get("n"), ",".join(clauses), keys))
        hit = hit or rp["key"] in keys
    if hit:
        print("VIOLATION property=C14 replay=%s" % path)
        return 1
    print("the stored case is accepted on the current tree (%d events judged)" % len(evs))
    return 0
