# shared by C03 / C04: type registry regeneration, primitive vectors (Tlb_Gen) and their replay, schema file
import json, os, subprocess
import vlib
from vlib import Infra


def regen_types(ck):
    p = vlib.sh(["python3", os.path.join(vlib.VERIF, "tools/gen_tlb_types.py")], check=False, env=dict(os.environ, VERIF_REPO=vlib.REPO))
    if p.returncode != 0:
        raise Infra("type registry generation failed: " + p.stdout[-2000:])


def schema_file(ck):
    out = os.path.join(ck.work, "schema.json")
    p = subprocess.run(["python3", os.path.join(vlib.VERIF, "tools/tlb2json.py"), os.path.join(vlib.SPEC, "schemas/block_core.tlb"),
                        os.path.join(vlib.SPEC, "schemas/block_more.tlb")],
                       stdout=subprocess.PIPE, stderr=subprocess.PIPE, text=True)
    if p.returncode != 0:
        raise Infra("tlb2json failed: " + p.stderr[-2000:])
    json.loads(p.stdout)
    open(out, "w").write(p.stdout)
    return out


def prim_vectors(ck):
    """Tlb_Gen over the Go side's primitive / combinator types; returns (vectors, replay results)."""
    tp = os.path.join(ck.work, "types.json")
    ck.run_vh(["types", "C04", "-in", tp, "-out", os.devnull])
    ntypes = len(json.load(open(tp)))
    res = ck.tlc_or_infra("Tlb_Gen", "gen/Tlb_Gen.cfg", files={"types.json": tp}, workers=8, timeout=1800, name="tlb_gen", heap_gb=6)
    vecs = res.vecs()
    if len(vecs) < 1000:
        raise Infra("Tlb_Gen produced only %d vectors" % len(vecs))
    for i, v in enumerate(vecs):
        v["vec"] = i
        if v.get("dec") is not True:
            raise Infra("specification self-check failed: TlbDec!Dec does not read back what TlbSem!Enc wrote for vector %d (%s %s)" % (i, v["type"], json.dumps(v["v"])[:200]))
    ck.extra["spec_selfcheck_Dec_of_Enc_vectors"] = len(vecs)
    vp, rp = os.path.join(ck.work, "prim_vec.ndjson"), os.path.join(ck.work, "prim_out.ndjson")
    vlib.write_ndjson(vp, vecs)
    ck.run_vh(["replay", "C04", "-in", vp, "-out", rp])
    out = vlib.read_ndjson(rp)
    if out[-1].get("k") != "End" or out[-1]["events"] != len(vecs):
        raise Infra("primitive replay incomplete")
    ck.extra["prim_types"] = ntypes
    ck.extra["prim_vectors"] = len(vecs)
    return vecs, out[:-1]


def validate_events_big(ck, module, cfg, trace_path, timeout=900, name=None, heap_gb=2, extra_files=None):
    """Check.validate_events for big traces: the same judgement (every line judged on its own by TLC, verdicts complete or
    Infra), but the trace is linted and copied by a process of its own (tools/prep_trace.py) and only the rejected lines
    are parsed here - the runner's interpreter lock otherwise serialises hundreds of megabytes of JSON work."""
    import sys
    p = subprocess.run([sys.executable, os.path.join(vlib.VERIF, "tools/prep_trace.py"), trace_path], stdout=subprocess.PIPE, stderr=subprocess.STDOUT, text=True)
    if p.returncode != 0 or "EVENTS " not in p.stdout:
        raise Infra("trace %s not usable: %s" % (trace_path, p.stdout[-1500:]))
    n = int(p.stdout.split("EVENTS ")[1].split()[0])
    if n == 0:
        raise Infra("trace %s has no events" % trace_path)
    tp = trace_path + ".tlc"
    files = {"trace.ndjson": tp}
    files.update(extra_files or {})
    res = ck.tlc(module, cfg, files=files, workers=1, timeout=timeout, name=name, heap_gb=heap_gb)
    if res.error or res.rc != 0:
        raise Infra("TLC error during event validation of %s (see %s/tlc.out):\n%s" % (module, res.dir, vlib.tail_errors(res.out)))
    verdict = {t[1]: t[2] for t in res.tuples("EV")}
    if sorted(verdict) != list(range(1, n + 1)):
        raise Infra("verdicts incomplete for %s: %d of %d" % (module, len(verdict), n))
    bad = set(i for i in verdict if verdict[i] != "ok")
    rejected = []
    if bad:
        with open(tp) as f:
            for i, l in enumerate(f, 1):
                if i in bad:
                    rejected.append({"line": i, "event": json.loads(l)})
    ck.traces_ok += n - len(rejected)
    ck.evaluations += n
    res.notes = res.tuples("NOTE")
    return res, rejected


def type_class(name):
    import re
    m = re.match(r"^(tlb\.)?(Uint|Int|Bits|VarUInteger)(\d+)$", name)
    return (m.group(2) + "N") if m else name
