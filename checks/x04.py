# X04 (extra check): encrypted comments, toncrypto.Encrypt against spec/EncComment.tla.
import json, os, copy, collections
import vlib, xgrow
from vlib import Infra, log

RULE = ("Design: TLC checks the algebraic laws of EncComment exhaustively over a grid (EncComment_MC): Decrypt(receiver, Encrypt(sender, "
        "receiver, msg, salt)) = msg and the sender reads its own message, for every message length of the grid (0, 1, 15, 16, 17, block "
        "multiples ...) x key pairs x salts; XOR-ing any single byte of the ciphertext with any mask makes Decrypt refuse, the only "
        "exception being the x-sign bit of pub_xor (byte 32, mask 0x80), which the shared secret does not depend on and where the unchanged "
        "comment is read; cut / extended ciphertexts, a stranger's key and another salt are refused. S->C: EncComment_Gen enumerates "
        "lengths x ordered key pairs (incl. to oneself) x salts, keys of wrong sizes, arbitrary 32-byte receiver keys, and computes the "
        "exact ciphertext for a given tape of random bytes; the harness calls toncrypto.Encrypt with crypto/rand.Reader replaced by the "
        "tape and the runner compares byte for byte. C->S: random / boundary calls of toncrypto.Encrypt are recorded with all arguments "
        "(before and after) and results; EncComment_Trace accepts a line only if the ciphertext has the documented layout (pub_xor, "
        "msg_key = HMAC-SHA512(salt, data)[0:16], AES-256-CBC under HMAC-SHA512(shared secret, msg_key)) and BOTH parties decrypt "
        "exactly the comment, the prefix length is the documented one, no argument was changed, no panic. "
        "distinct = distinct vectors + distinct recorded calls.")
TRACE = ("EncComment_Trace", "trace/EncComment_Trace.cfg")


def samples(ck):
    r = ck.rng
    hexn = lambda n: "%0*x" % (2 * n, r.getrandbits(8 * n)) if n else ""
    ns = 3 if ck.thorough else 2
    seeds = ["9d61b19deffd5a60ba844af492ec2cc44449c5697b326919703bac031cae7f60"] + [hexn(32) for _ in range(ns - 1)]
    salts = ["", "EQCD39VS5jcptHL8vMjEXrzGaRcCVYto7HUn4bpAOg8xqB2N".encode().hex()]
    if ck.thorough:
        salts.append(hexn(200))
    raw = ["01" + "00" * 31, "01" + "00" * 30 + "80", "00" * 32, "ec" + "ff" * 30 + "7f", "ed" + "ff" * 30 + "7f", "ee" + "ff" * 30 + "ff",
           "26e8958fc2b227b045c3f489f2ef98f0d5dfac05d3c63339b13802886d53fc05", "c7176a703d4dd84fba3c0b760d10670f2a2053fa2c39ccc64ec7fd7792ac03fa", "ff" * 32, "02" + "00" * 31] + [hexn(32) for _ in range(12 if ck.thorough else 5)]
    return {"seeds": seeds, "salts": salts, "tapes": [hexn(31) for _ in range(5)] + ["00" * 31, "ff" * 31],
            "rawpubs": raw, "pool": hexn(70000 if ck.thorough else 5000)}


def len_class(n):
    if n == 0:
        return "len=0"
    return {0: "len%16=0", 15: "len%16=15", 1: "len%16=1"}.get(n % 16, "len%16=other")


def compare(v, e):
    """None or why the recorded call is not what the vector requires"""
    if e["panic"]:
        return "panic"
    if v["cls"] == "ok":
        if e["err"]:
            return "refused"
        return None if e["out"] == v["out"] else "ciphertext"
    if v["cls"] == "err":
        return None if e["err"] else "accepted"
    if v["cls"] == "free":
        return None if e["err"] or e["out"] == v["out"] else "ciphertext"
    return None


def run(ck):
    ck.assumptions += ["TLC + CommunityModules Json", "Prim: SHA-512, HMAC-SHA-512, the AES-256 block cipher (ECB, no padding), X25519, "
                       "Ed25519 public key from seed, Edwards->Montgomery conversions (JDK / BigInteger, known-answer tests in PrimTest); "
                       "padding rule, CBC chaining, all layouts and Decrypt are TLA+",
                       "the library has no Decrypt: Decrypt is the documentation's algorithm in TLA+",
                       "S->C exact comparison assumes the prefix is cut from ONE read of crypto/rand.Reader; a ciphertext that differs but "
                       "is accepted by the judge is reported as an observation, not a violation",
                       "ed25519.PrivateKey arguments are seed || public key of that seed (others are outside the quantifier)"]
    ck.build_vh()
    tier = "full" if ck.thorough else "quick"
    # ------------------------------------------------------------------ design: the laws on the grid
    mc = ck.tlc_or_infra("EncComment_MC", "mc/EncComment_MC_%s.cfg" % tier, workers=4, timeout=1200, name="mc", heap_gb=3)
    if not mc.completed or mc.distinct < 100:
        raise Infra("EncComment_MC did not complete")
    ck.extra["mc_states"] = mc.distinct
    # vacuity of the Tamper law: without the sign-bit exception it must fail (the exception is real and the law is evaluated)
    mcc = ck.tlc("EncComment_MC", "mc/EncComment_MC_canary.cfg", workers=2, timeout=600, name="mc_canary", heap_gb=2)
    ck.canary("design: Tamper law without the x-sign-bit exception is violated on the grid", "Tamper" in mcc.invariant_violated)

    # ------------------------------------------------------------------ S->C
    smp = samples(ck)
    vecs = xgrow.gen(ck, "EncComment_Gen", "gen/EncComment_Gen_%s.cfg" % tier, smp, "gen", workers=4)
    classes = collections.Counter(v["cl"] for v in vecs)
    need = {"len=0", "len%16=0", "len%16=15", "len%16=1", "len%16=other", "keysize:rpub", "keysize:spriv", "rawpub", "rawpub:neutral"}
    if not need <= set(classes):
        raise Infra("generator lacks classes: %s" % sorted(need - set(classes)))
    ck.extra["vectors"] = dict(classes)
    evs, pending, p = xgrow.run_vectors(ck, "X04", vecs, "vectors")
    if pending or p.returncode != 0 or len(evs) != len(vecs):
        raise Infra("replay died (%s): %s" % (pending, p.stdout[-2000:]))
    verdicts, notes = xgrow.judge(ck, *TRACE, evs, "trace_gen")
    for v, e, ok in zip(vecs, evs, verdicts):
        assert e["vec"] == v["vec"]
        why = compare(v, e)
        key = "X04:Encrypt:%s" % v["cl"]
        small = {k: (x if len(str(x)) < 400 else str(x)[:400] + "...") for k, x in e.items()}
        if why == "ciphertext" and ok:
            ck.notes.append("observation: vector %d (%s): ciphertext differs from the expectation for the tape but is a conforming "
                            "encryption (the random bytes are consumed differently)" % (v["vec"], v["cl"]))
            ck.extra["tape_convention_differs"] = True
        elif why:
            ck.report(key, "vector %d (%s, n=%d): specification requires %s, code gave %s: %s" % (
                v["vec"], v["cl"], v["n"], v["cls"], why, json.dumps(small)[:1200]), {"kind": "vector", "vector": v})
        elif not ok:
            ck.report(key, "vector %d (%s): recorded call rejected by EncComment_Trace: %s" % (v["vec"], v["cl"], json.dumps(small)[:1200]),
                      {"kind": "vector", "vector": v})
        else:
            ck.traces_ok += 1
    ck.evaluations += len(vecs)
    ck.sample({"direction": "S->C", "vector": {k: (x if len(str(x)) < 200 else str(x)[:200] + "...") for k, x in
                                               next(v for v in vecs if v["cl"] == "len%16=0").items()}})
    # canaries S->C: corrupt an expectation; the comparison must flag it
    ok_vs = [v for v in vecs if v["cls"] == "ok" and v["n"] in (0, 16, 17)]
    cv = []
    for (nm, pos), v in zip([("ciphertext byte", 50), ("msg_key byte", 40), ("pub_xor byte", 3)], ok_vs):
        c = copy.deepcopy(v); c["out"] = xgrow.flip_hex(c["out"], pos); cv.append(("S->C: expected %s altered" % nm, c))
    c = copy.deepcopy(next(v for v in vecs if v["cl"] == "keysize:rpub")); c["cls"] = "ok"; cv.append(("S->C: wrong-size key expected to be accepted", c))
    c = copy.deepcopy(ok_vs[0]); c["cls"] = "err"; cv.append(("S->C: good call expected to be refused", c))
    cevs, pend, p = xgrow.run_vectors(ck, "X04", [c for _, c in cv], "canary_vec")
    if pend or len(cevs) != len(cv):
        raise Infra("canary replay died")
    for (nm, c), e in zip(cv, cevs):
        ck.canary(nm, compare(c, e) is not None)

    # ------------------------------------------------------------------ C->S
    shards = 4 if ck.thorough else 2

    def drive(i):
        tp = os.path.join(ck.work, "trace_%02d.ndjson" % i)
        p_ = ck.run_vh(["drive", "X04", "-out", tp, "-tier", ck.tier, "-seed", ck.seed, "-shard", i, "-shards", shards], check=False)
        es, pend_ = xgrow.strip(tp, tp + ".s")
        if pend_:
            ck.report("X04:Encrypt:crash", "driver died inside a call: %s" % json.dumps(pend_), {"kind": "drive", "shard": i, "shards": shards,
                      "seed": ck.seed, "tier": ck.tier})
        elif p_.returncode != 0:
            raise Infra("driver failed: " + p_.stdout[-2000:])
        return es
    traces = vlib.parallel(drive, range(shards), n=4)
    results = vlib.parallel(lambda t: xgrow.judge(ck, *TRACE, t[1], "trace_%02d" % t[0], timeout=2400), list(enumerate(traces)), n=4)
    kinds = collections.Counter()
    distinct = set()
    for i, (es, (verd, nts)) in enumerate(zip(traces, results)):
        for j, (e, ok) in enumerate(zip(es, verd)):
            nt = nts.get(j, [["?", 0, ""]])[0]
            kinds[nt[0] + ("" if nt[0] != "rawpub" else (":refused" if e["err"] else ":accepted"))] += 1
            distinct.add(json.dumps([e[k] for k in ("spriv", "rpub", "msg", "salt")]))
            if not ok:
                n = len(e["msg"]) // 2
                ck.report("X04:Encrypt:%s:%s" % (nt[0], "panic" if e.get("panic") else len_class(n)),
                          "recorded call is not what EncComment requires (class %s, n=%d): %s" % (nt[0], n, json.dumps(e)[:1500]),
                          {"kind": "drive", "shard": i, "shards": shards, "seed": ck.seed, "tier": ck.tier, "index": j})
    ck.extra["events_by_class"] = dict(kinds)
    for k in ("honest", "keysize", "rawpub:refused", "rawpub:accepted"):
        if kinds[k] == 0 and not ck.violations:
            raise Infra("recorded traces lack class %s" % k)
    ck.sample({"direction": "C->S", "event": next(e for e in traces[0] if e["src"] == "rand" and len(e["msg"]) < 80)})

    # canaries C->S: one file, every line one corruption of an accepted line
    allev = [(e, ok) for es, (verd, _) in zip(traces, results) for e, ok in zip(es, verd)]
    base = next((e for e, ok in allev if ok and e["src"] == "rand" and e["err"] == "" and 4 <= len(e["msg"]) // 2 and len(e["salt"]) >= 2), None)
    ks = next((e for e, ok in allev if ok and e["src"] == "keysize"), None)
    if base is None or ks is None:
        if not ck.violations:
            raise Infra("no accepted line to derive the C->S canaries from")
        ck.notes.append("C->S canaries skipped: no accepted recorded call on this (violating) run")
        return ck.finish(rule=RULE, distinct=len(vecs) + len(distinct))
    cans = [("control: untouched line", base, False)]

    def mut(nm, f, src=base):
        c = copy.deepcopy(src); f(c); cans.append(("C->S: " + nm, c, True))
    mut("one ciphertext byte altered", lambda c: c.update(out=xgrow.flip_hex(c["out"], 48 + 5)))
    mut("last ciphertext byte altered", lambda c: c.update(out=xgrow.flip_hex(c["out"], len(c["out"]) // 2 - 1, 0x80)))
    mut("msg_key byte altered", lambda c: c.update(out=xgrow.flip_hex(c["out"], 33)))
    mut("pub_xor byte altered", lambda c: c.update(out=xgrow.flip_hex(c["out"], 7)))
    mut("x-sign bit of pub_xor altered (decrypts, but not the documented field)", lambda c: c.update(out=xgrow.flip_hex(c["out"], 31, 0x80)))
    mut("logged message altered", lambda c: c.update(msg=xgrow.flip_hex(c["msg"], 0), msg_after=xgrow.flip_hex(c["msg"], 0)))
    mut("logged salt altered", lambda c: c.update(salt=xgrow.flip_hex(c["salt"], 0), salt_after=xgrow.flip_hex(c["salt"], 0)))
    mut("ciphertext cut by one block", lambda c: c.update(out=c["out"][:-32]))
    mut("success logged as refusal", lambda c: c.update(err="e", out=""))
    mut("panic logged", lambda c: c.update(panic="x"))
    mut("argument changed by the call", lambda c: c.update(spriv_after=xgrow.flip_hex(c["spriv_after"], 40)))
    mut("wrong-size key logged as accepted", lambda c: c.update(err="", out=base["out"]), ks)
    st = (ck.states, ck.transitions, ck.traces_ok, ck.evaluations)
    cverd, _ = xgrow.judge(ck, *TRACE, [c for _, c, _ in cans], "canaries")
    ck.states, ck.transitions, ck.traces_ok, ck.evaluations = st
    if not cverd[0]:
        raise Infra("canary control line (an untouched accepted line) was rejected")
    for (nm, _, want_rej), ok in list(zip(cans, cverd))[1:]:
        ck.canary(nm, not ok)
    return ck.finish(rule=RULE, distinct=len(set(json.dumps({k: v for k, v in x.items() if k != "vec"}, sort_keys=True) for x in vecs)) + len(distinct))


def replay(ck, path):
    ck.build_vh()
    rp = json.load(open(path))["replay"]
    if rp["kind"] == "vector":
        v = rp["vector"]
        evs, pending, p = xgrow.run_vectors(ck, "X04", [v], "replay")
        if pending or not evs:
            print("driver died inside the call: %s" % pending)
            print("VIOLATION property=X04 replay=%s" % path)
            return 1
        verd, _ = xgrow.judge(ck, *TRACE, evs, "replay_trace")
        why = compare(v, evs[0])
        print(json.dumps(evs[0])[:2000])
        if (why and not (why == "ciphertext" and verd[0])) or not verd[0]:
            print("VIOLATION property=X04 replay=%s" % path)
            return 1
        return 0
    tp = os.path.join(ck.work, "replay.ndjson")
    ck.run_vh(["drive", "X04", "-out", tp, "-tier", rp["tier"], "-seed", rp["seed"], "-shard", rp["shard"], "-shards", rp["shards"]], check=False)
    es, pend = xgrow.strip(tp, tp + ".s")
    bad = bool(pend)
    verd, _ = xgrow.judge(ck, *TRACE, es, "replay_trace", timeout=2400)
    for e, ok in zip(es, verd):
        if not ok:
            print(json.dumps(e)[:2000]); bad = True
    if bad:
        print("VIOLATION property=X04 replay=%s" % path)
        return 1
    print("re-recorded shard %s (seed %s, tier %s) accepted" % (rp["shard"], rp["seed"], rp["tier"]))
    return 0
