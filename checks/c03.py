# C03: TL-B values survive encode/decode for every type the library ships (spec/TlbSem.tla, spec/trace/Tlb_Trace.tla).
import json, os, copy
import vlib, cellcommon, tlbcommon
from vlib import Infra

RULE = ("C->S: for every exported TL-B type of packages tlb, wallet, abi (type list regenerated from the working tree) random in-domain "
        "canonical values (integer widths at 0/1/max/top-bit/random, every VarUInteger length, every constructor of every sum type, "
        "optionals present/absent, Either left/right, nested refs, enumerations from their declared constants) go through Marshal, "
        "Unmarshal, Marshal; Tlb_Trace accepts an event only if nothing panics and either the encoder refuses with an error or the "
        "decoded value equals the original (VM stacks in the documented opposite order), the re-encoding is the identical cell tree, "
        "and - wherever reflection yields a complete schema - the cell is exactly the one TlbSem!Enc prescribes (an independent third "
        "opinion on bits and on the constructor chosen). S->C: the boundary-value vectors of Tlb_Gen for all primitive and combinator "
        "types are encoded and decoded by the library. Non-trivial = value other than the zero value; distinct = distinct (type, cell).")


def run(ck):
    ck.assumptions += ["TLC 1.8.0, CommunityModules", "Prim converters",
                       "the value domain of a type is what its Go representation holds AND its TL-B definition expresses: enumerations take their declared constants, "
                       "Hashmap (without E) has >= 1 entry, W5ExtendedActions >= 1 element, McStateExtraOther/McBlockExtra with their flag-dependent fields present, "
                       "VmCellSlice values come from the library's constructor; VmTuple/VmTupleRef (bodies parametrised by the enclosing length) are not types of their own",
                       "value equality is equality of the harness's canonical reflection dump (exported fields)"]
    tlbcommon.regen_types(ck)
    ck.build_vh()
    # ---- S->C primitives (decode side of the specification's own cells, encode side of the boundary values)
    vecs, out = tlbcommon.prim_vectors(ck)
    for v, r in zip(vecs, out):
        if r["match"]:
            ck.traces_ok += 1
        else:
            ck.report("C03:prim:%s:%s" % (tlbcommon.type_class(v["type"]), r["what"].split(":")[0]),
                      "type %s value %s: %s" % (v["type"], json.dumps(v["v"])[:200], r["what"]), {"kind": "prim", "vector": v, "got": r})
    ck.evaluations += len(vecs)
    # ---- C->S round trips of every type
    traces = cellcommon.drive_shards(ck, "C03")
    def val(tp):
        return ck.validate_events("Tlb_Trace", "trace/Tlb_Trace.cfg", tp, timeout=3000, name="trace_" + os.path.basename(tp)[6:8], heap_gb=3,
                                  extra_files={"schema.json": empty})
    empty = os.path.join(ck.work, "empty_schema.json")
    open(empty, "w").write("{}")
    types, withast, refused, distinct = set(), 0, 0, set()
    for tp, (res, rejected) in zip(traces, vlib.parallel(val, traces, n=8)):
        notes = cellcommon.notes_by_line(res)
        for rj in rejected:
            e = rj["event"]
            note = (notes.get(rj["line"]) or [["no-action"]])[0][0]
            if e.get("k") == "GenFail":
                raise Infra("value generator failed for %s: %s" % (e.get("type"), e.get("panic")))
            ck.report("C03:%s:%s" % (e.get("type"), note), "round trip of a %s value rejected (%s): enc=%s dec=%s enc2=%s %s; value %s" % (
                e.get("type"), note, e.get("enc"), e.get("dec"), e.get("enc2"), e.get("msg", "")[:120], e.get("vs", "")[:300]),
                {"kind": "trace", "event": cellcommon.slim(e, 8000), "note": note})
        for l in open(tp):
            e = json.loads(l)
            if e.get("k") == "RT":
                types.add(e["type"])
                withast += 1 if e["hasast"] and e["enc"] == "ok" else 0
                refused += 1 if e["enc"] == "err" else 0
                if e["enc"] == "ok":
                    distinct.add((e["type"], e["tree"][:120], len(e["tree"])))
    ck.extra["types"] = len(types)
    ck.extra["roundtrips_with_independent_schema"] = withast
    ck.extra["encoder_refused"] = refused
    if len(types) < 300:
        raise Infra("only %d TL-B types were exercised" % len(types))
    evs = vlib.read_ndjson(traces[0])
    rt = next(e for e in evs if e.get("k") == "RT" and e["enc"] == "ok" and e["hasast"] and len(e["tree"]) > 30)
    ck.sample({"direction": "C->S", "event": cellcommon.slim(rt, 1500)})
    c1 = copy.deepcopy(rt); c1["vs2"] = c1["vs2"] + " "
    c2 = copy.deepcopy(rt); c2["tree"] = c2["tree"][:2] + ("1" if c2["tree"][2] == "0" else "0") + c2["tree"][3:]; c2["tree2"] = c2["tree"]
    c3 = copy.deepcopy(rt); c3["enc"] = "panic: x"
    c4 = copy.deepcopy(rt); c4["dec"] = "err"
    p = os.path.join(ck.work, "canary.ndjson")
    vlib.write_ndjson(p, [c1, c2, c3, c4, rt, {"k": "End"}])
    st = (ck.states, ck.transitions, ck.traces_ok, ck.evaluations)
    _, rej = ck.validate_events("Tlb_Trace", "trace/Tlb_Trace.cfg", p, name="canary", extra_files={"schema.json": empty})
    ck.states, ck.transitions, ck.traces_ok, ck.evaluations = st
    ck.canary("C->S: changed value / changed bit (third opinion) / panic / decode error rejected, original accepted", [r["line"] for r in rej] == [1, 2, 3, 4])
    return ck.finish(rule=RULE, distinct=len(distinct) + len(vecs))


def replay(ck, path):
    import c04
    rp = json.load(open(path))["replay"]
    if rp["kind"] == "prim":
        rc = c04.replay(ck, path)
        return rc
    print("recorded event (re-run bin/check C03 to re-record and re-judge):")
    print(json.dumps(rp.get("event"))[:2000])
    return 0
