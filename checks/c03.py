# C03: TL-B values survive encode/decode for every type the library ships (spec/TlbSem.tla, spec/trace/Tlb_Trace.tla).
import json, os, copy
import vlib, cellcommon, tlbcommon
from vlib import Infra

RULE = ("C->S: for every exported TL-B type of packages tlb, wallet, abi (type list regenerated from the working tree) random in-domain "
        "canonical values (integer widths at 0/1/max/top-bit/random, every VarUInteger length, every constructor of every sum type, "
        "optionals present/absent, Either left/right, nested refs, enumerations from their declared constants) go through Marshal, "
        "Unmarshal, Marshal; Tlb_Trace accepts an event only if nothing panics and either the encoder refuses with an error or the "
        "decoded value equals the original (VM stacks in the documented opposite order), the re-encoding is the identical cell tree, "
        "and - wherever reflection yields a complete schema - the cell is exactly the one TlbSem!Enc prescribes (an independent third "
        "opinion on bits and on the constructor chosen) AND the specification's total decoder TlbDec!Dec, reading that cell under the same "
        "schema, returns exactly the recorded value with nothing left unread (an independent decode; it also judges values holding "
        "NON-EMPTY dictionaries, for which Enc prescribes no unique cell: HashmapE nodes carry key width and value schema, dictionaries "
        "are compared as [key bits, value] lists in ascending key order). Tlb_Gen checks Dec(Enc(v)) = v for every vector it emits and "
        "Dec against the reference dictionary writer in every label form. S->C: the boundary-value vectors of Tlb_Gen for all primitive and combinator "
        "types are encoded and decoded by the library; TVM tuples (encoder 'not implemented': decode side only) are built from their schema by VmTuple_Gen and must decode, "
        "as a value, on a stack and through VmStack.UnmarshalTL, to exactly the entries the specification put in. The VM stack API (spec/VmStackApi.tla, from TVM's stack "
        "semantics): VmStackApi_Gen (TLC) writes sequences of Put of values of every kind, integers at the int64 / uint64 / 257-bit bounds, slices with every kind of window, "
        "(value, Go destination) pairs incl. VmTuple_Gen's tuples and ill-formed neighbours, TL-B structures; the harness runs them through Put, MarshalTLB / UnmarshalTLB, "
        "MarshalTL / UnmarshalTL, the Is* / Int64 / Uint64 / Int257 / Cell / CellSlice accessors, the Unmarshal readers into Go values, RecursiveToSlice, TlbStructToVmCell(Slice) / "
        "UnmarshalToTlbStruct; VmStackApi_Trace (TLC) recomputes each expectation from the case and accepts an event only if every answer is the required one (last Put = top = "
        "listed first; outermost cell = top; decoded stack bottom-first, so decode(encode(l)) = reverse(l); TL bytes = a bag with one root, empty bytes = empty stack; exact "
        "conversions inside the range of the target, an error outside it and for mismatching destinations, never a panic). "
        "Non-trivial = value other than the zero value; distinct = distinct (type, cell) + vmstack cases.")


def decode_only_tuples(ck):
    """S->C: VmTuple_Gen (TLC) builds, from the schema of vm_stk_tuple / VmTuple / VmTupleRef, the cells of tuples of 0..5 entries (null,
    tinyint, nan, nested tuples) together with the value each denotes; the library (VmStkTuple.MarshalTLB is "not implemented") must decode
    every well-formed one - as a VmStackValue, on a VmStack and through VmStack.UnmarshalTL - to exactly those entries in order."""
    res = ck.tlc_or_infra("VmTuple_Gen", "gen/VmTuple_Gen_full.cfg" if ck.thorough else "gen/VmTuple_Gen.cfg", workers=4, timeout=900, name="vmtuple", heap_gb=3)
    vecs = [v for v in res.vecs() if v["wf"]]
    if len(vecs) < 20 or not any(v["n"] == 1 for v in vecs):
        raise Infra("VmTuple_Gen wrote only %d well-formed tuples" % len(vecs))
    vp, tp = os.path.join(ck.work, "tuples_vec.ndjson"), os.path.join(ck.work, "tuples_trace.ndjson")
    vlib.write_ndjson(vp, [{k: v[k] for k in ("n", "kind", "wf", "vals", "boc", "stack")} for v in vecs])
    ck.run_vh(["drive", "C08", "-part", "tuples", "-in", vp, "-out", tp, "-tier", ck.tier, "-seed", ck.seed, "-shard", 0, "-shards", 1], timeout=1200)
    # (Begin records only attribute a death; the driver also reads every decoded tuple on into Go values - VmStkTuple.Unmarshal,
    # RecursiveToSlice: C08's totality question, and the business of the vmstack phase below, not of this one)
    readers = ("VmStackValue.Unmarshal", "VmStkTuple.Unmarshal", "VmStkTuple.RecursiveToSlice", "VmTuple.RecursiveToSlice")
    evs = [e for e in vlib.read_ndjson(tp) if e.get("k") in ("Tuple", "Panic", "Crash", "Timeout") and e.get("site") not in readers]
    if sum(1 for e in evs if e.get("k") == "Tuple") < len(vecs):
        raise Infra("only %d Tuple events for %d vectors" % (len(evs), len(vecs)))
    ok = copy.deepcopy(next(e for e in evs if e.get("k") == "Tuple" and e.get("res") == "ok" and e.get("n", 0) >= 2))
    bad = copy.deepcopy(ok); bad["got"] = bad["got"] + " "
    vlib.write_ndjson(tp, evs + [bad, ok, {"k": "End", "events": len(evs) + 2}])
    empty = os.path.join(ck.work, "empty.json")
    open(empty, "w").write("{}")
    res, rejected = ck.validate_events("Decode_Trace", "trace/Decode_Trace.cfg", tp, timeout=1800, name="tuples", heap_gb=3,
                                       extra_files={"asts.json": empty, "schema.json": empty})
    canary_hit = False
    for rj in rejected:
        e = rj["event"]
        if rj["line"] == len(evs) + 1:
            canary_hit = True
            continue
        ck.report("C03:tlb.VmStkTuple:decode-only:%s" % ("panic" if e.get("k") in ("Panic", "Crash", "Timeout") else "value"),
                  "a TVM tuple of %s entries built from the schema (%s) is not decoded to the value it denotes: result %s, got %s" % (
                      e.get("n"), str(e.get("vals"))[:200], e.get("res", e.get("k")), str(e.get("got", e.get("panic", "")))[:200]),
                  {"kind": "tuple", "event": cellcommon.slim(e, 6000)})
    ck.canary("S->C: a tuple event whose decoded entries differ from the expectation is rejected, the original accepted",
              canary_hit and not any(rj["line"] == len(evs) + 2 for rj in rejected))
    ck.extra["decode_only_tuples"] = len(evs)


VM_FIELDS = ("list", "tree", "rt", "mtl", "rttl", "sdec", "sdectl", "text", "is", "i64", "u64", "i257", "cell", "cslice", "rts", "trs", "um", "tum",
             "tocell", "toslice", "backcell", "backslice", "backslice2", "viastack")


READER_APIS = {"VmStackValue.Unmarshal", "VmStkTuple.Unmarshal", "VmStack.Unmarshal", "VmTuple.RecursiveToSlice", "VmStkTuple.RecursiveToSlice"}


def vm_stack_api(ck):
    """S->C: VmStackApi_Gen (TLC) writes the cases of the VM stack API - sequences of Put of small values of every kind, values at the
    int64 / uint64 / 257-bit bounds for the accessors, (value, destination) pairs for Unmarshal incl. VmTuple_Gen's tuples and their
    ill-formed neighbours, TL-B structures for TlbStructToVmCell / TlbStructToVmCellSlice; `vh replay C03 -part vmstack` runs them against
    package tlb; VmStackApi_Trace (TLC) recomputes every expectation from the case the event echoes and names the API whose answer
    is not the one spec/VmStackApi.tla requires. Keys C03:vmstack:<api>:<class>."""
    params = os.path.join(ck.work, "vmstack_params.json")
    json.dump({"seed": ck.seed}, open(params, "w"))
    res = ck.tlc_or_infra("VmStackApi_Gen", "gen/VmStackApi_Gen_full.cfg" if ck.thorough else "gen/VmStackApi_Gen.cfg", files={"vmstack_params.json": params},
                          workers=4, timeout=900, name="vmstack_gen", heap_gb=3)
    vecs = res.vecs()
    per = {}
    for v in vecs:
        per[v["api"]] = per.get(v["api"], 0) + 1
    if set(per) != {"stack", "value", "unmarshal", "struct"} or per["stack"] < 100 or per["value"] < 60 or per["unmarshal"] < 500 or per["struct"] < 15:
        raise Infra("VmStackApi_Gen wrote too few cases: %s" % per)
    vecs.sort(key=lambda v: (v["api"], json.dumps(v, sort_keys=True)))
    vp, tp = os.path.join(ck.work, "vmstack_vec.ndjson"), os.path.join(ck.work, "vmstack_trace.ndjson")
    vlib.write_ndjson(vp, vecs)
    ck.run_vh(["replay", "C03", "-part", "vmstack", "-in", vp, "-out", tp], timeout=600)
    evs = vlib.read_ndjson(tp)
    if evs[-1].get("k") != "End" or len(evs) - 1 < len(vecs):
        raise Infra("vmstack replay incomplete: %d events for %d cases" % (len(evs) - 1, len(vecs)))
    evs = evs[:-1]
    badvec = [e for e in evs if e.get("k") == "VmBadVector"]
    if badvec:
        raise Infra("the harness could not build %d cases of VmStackApi_Gen: %s" % (len(badvec), badvec[0].get("msg")))
    # ---- canaries: copies of recorded events with one answer changed, appended to the same trace together with the originals.
    # (They are derived from recorded behaviour: on a tree whose answers are wrong an original may be missing or rejected; then
    # the violations reported stand and Check.canary only notes it.)
    i64max = str(2 ** 63 - 1)
    cans, missing = [], []      # (original, [changed copies]); names of groups whose original was not recorded in the expected shape
    def group(name, pred, changes):
        e = next((x for x in evs if pred(x)), None)
        if e is None:
            missing.append(name)
            return
        cs = []
        for f in changes:
            c = copy.deepcopy(e); f(c); cs.append(c)
        cans.append((copy.deepcopy(e), cs))
    def depth_less(c):
        i = c["tree"].index("{") + 1
        c["tree"] = c["tree"][:i] + format(int(c["tree"][i:i + 24], 2) - 1, "024b") + c["tree"][i + 24:]
    group("stack", lambda e: e["k"] == "VmStack" and len(e["puts"]) >= 2 and e["enc"] == "ok" and e["mtl"]["res"] == "ok" and e["rt"]["res"] == "ok"
          and e["sdectl"]["res"] == "ok" and e["list"] != e["list"][::-1] and e["rt"]["list"] != e["rt"]["list"][::-1]
          and e["sdectl"]["list"] != e["sdectl"]["list"][::-1] and e["tree"][e["tree"].index("{") + 1:][:24] == format(len(e["puts"]), "024b"),
          [lambda c: c.update(list=c["list"][::-1]),                                        # Put appended instead of pushing
           lambda c: c["rt"].update(list=c["rt"]["list"][::-1]),                            # the decoder listing top-first
           lambda c: c["sdectl"].update(list=c["sdectl"]["list"][::-1]),
           depth_less,                                                                        # depth field
           lambda c: c["mtl"].update(hex=c["mtl"]["hex"][:-8] + "00000000" + c["mtl"]["hex"][-8:])])                   # TL padding
    group("int64", lambda e: e["k"] == "VmValue" and e["v"].get("t") == "int" and e["v"].get("v") == i64max and e["mode"] == "decode" and e["i64"]["res"] == "ok",
          [lambda c: c["i64"].update(v=str(2 ** 63 - 2)),                                   # off by one at the int64 bound
           lambda c: c.update(u64={"res": "panic", "panic": "x"})])                         # a panic where the precondition holds
    group("uint64", lambda e: e["k"] == "VmValue" and e["v"].get("t") == "int" and e["v"].get("v") == str(2 ** 64 - 1) and e["u64"]["res"] == "ok",
          [lambda c: c["u64"].update(v="0")])                                               # uint64 wrapped one value too early
    group("flags", lambda e: e["k"] == "VmValue" and e["v"].get("t") == "tinyint",
          [lambda c: c["is"].update(nul=True), lambda c: c["is"].update(int=False)])        # wrong Is* flags
    group("window", lambda e: e["k"] == "VmValue" and e["v"].get("t") == "slice" and e["v"]["sb"] > 0 and e["v"]["eb"] > e["v"]["sb"] and e["cslice"]["res"] == "ok",
          [lambda c: c["cslice"].update(v=c["cslice"]["v"].replace("{", "{1", 1))])         # the window one bit too wide
    group("fields", lambda e: e["k"] == "VmUnmarshal" and e["dest"] == "S3" and e["um"]["res"] == "ok" and e["um"].get("val") == "{1,2,3}",
          [lambda c: c["um"].update(val="{3,2,1}")])                                        # fields filled in the opposite order
    group("count", lambda e: e["k"] == "VmUnmarshal" and e["dest"] == "S2" and e["cls"].startswith("tupleN") and e["um"]["res"] == "err",
          [lambda c: c.update(um={"res": "ok", "val": "{1,2}"})])                           # a longer tuple silently cut to the struct
    group("list", lambda e: e["k"] == "VmUnmarshal" and e["dest"] == "L64" and e["um"]["res"] == "ok" and e["um"].get("val") == "[1,2,3]",
          [lambda c: c.update(tum={"res": "panic", "panic": "x"}), lambda c: c["um"].update(val="[1,2]")])     # a panic; the last element lost
    group("int8", lambda e: e["k"] == "VmUnmarshal" and e["dest"] == "i8" and e["v"].get("v") == "127" and e["um"]["res"] == "ok",
          [lambda c: c["um"].update(val="-129")])
    group("wrap", lambda e: e["k"] == "VmUnmarshal" and e["dest"] == "i8" and e["v"].get("v") == "128" and e["um"]["res"] == "err",
          [lambda c: c.update(um={"res": "ok", "val": "-128"})])                            # silent wrap past the int8 bound
    group("struct", lambda e: e["k"] == "VmStruct" and e["cls"] == "MsgAddress" and e["s"].get("ctor") == "std" and e["backslice2"]["res"] == "ok" and e["tocell"]["res"] == "ok",
          [lambda c: c["backslice2"].update(text=c["backslice2"]["text"].replace(":std:", ":std:1")),
           lambda c: c["tocell"].update(text=c["tocell"]["text"].replace("{10", "{11", 1))])
    canaries = [c for _, cs in cans for c in cs]
    originals = [o for o, _ in cans]
    n = len(evs)
    vlib.write_ndjson(tp, evs + canaries + originals + [{"k": "End", "events": n + len(canaries) + len(originals)}])
    st0 = (ck.traces_ok, ck.evaluations)
    res, rejected = ck.validate_events("VmStackApi_Trace", "trace/VmStackApi_Trace.cfg", tp, timeout=1800, name="vmstack", heap_gb=3)
    ck.traces_ok, ck.evaluations = st0[0] + n - sum(1 for r in rejected if r["line"] <= n), st0[1] + n
    notes = cellcommon.notes_by_line(res)
    can_rej = set()
    observations = {}
    for rj in rejected:
        e, ln = rj["event"], rj["line"]
        if ln > n:
            can_rej.add(ln - n)
            continue
        api = (notes.get(ln) or [["no-action"]])[0][0]
        got = {k: e[k] for k in VM_FIELDS if k in e}
        # The property speaks about stack VALUES as TL-B (encode / decode, the list convention) - Put, the cell and TL forms, the Is* /
        # accessor methods and the TL-B struct helpers are judged. The reflection readers that map a stack onto arbitrary Go
        # destinations (VmStackValue.Unmarshal, VmStkTuple.Unmarshal, VmStack.Unmarshal, RecursiveToSlice) are specified in
        # VmStackApi.tla too, but no clause of C03 covers them: what they do differently (silent truncation into narrow integers,
        # [2^63, 2^64) refused for uint64, pointer destinations, one-entry tuples refused ...) is recorded as an observation
        # (patches/0007), not as a violation. A panic on spec-built input is C08's clause and is reported there.
        if api.split(":")[0] in READER_APIS or api in READER_APIS:
            observations.setdefault("%s:%s" % (api, e.get("cls", e.get("k"))), json.dumps(got)[:300])
            continue
        ck.report("C03:vmstack:%s:%s" % (api, e.get("cls", e.get("k"))),
                  "VM stack API: the answer of %s for case %s is not what spec/VmStackApi.tla requires: %s" % (
                      api, json.dumps({k: e[k] for k in ("puts", "v", "dest", "s") if k in e})[:400], json.dumps(got)[:600]),
                  {"kind": "vmstack", "api": api, "event": cellcommon.slim(e, 8000)})
    vlib.log("vmstack canaries: groups missing %s; not rejected %s" % (missing, sorted(set(range(1, len(canaries) + 1)) - can_rej)))
    ck.canary("S->C vmstack: reversed Put order / reversed decoded order (cell, TL) / wrong depth / broken TL padding / int64 off by one / panic of Uint64 on an "
              "integer / uint64 wrapped / wrong IsNull / wrong IsInt / slice window one bit wider / struct fields in the opposite order / tuple cut to a shorter "
              "struct / panic of VmStkTuple.Unmarshal / last list element lost / int8 off range / silent wrap past the int8 bound / structure read back changed / "
              "wrong constructor bits rejected, "
              "the originals accepted (groups about the reflection readers are optional: their originals exist only where the library answers as the specification says)",
              not [m for m in missing if m not in ("fields", "count", "list", "int8", "wrap")] and can_rej == set(range(1, len(canaries) + 1)))
    ck.extra["vmstack"] = {"cases": per, "events": n, "canaries": len(canaries), "canary_groups_missing": missing,
                           "reader_observations_outside_the_property": observations}
    e0 = next(e for e in evs if e["k"] == "VmStack" and len(e["puts"]) == 2 and e["enc"] == "ok")
    ck.sample({"direction": "S->C", "vmstack": cellcommon.slim({k: e0[k] for k in ("puts", "list", "tree", "rt")}, 1200)})
    return len(vecs)


def run(ck):
    ck.assumptions += ["TLC 1.8.0, CommunityModules", "Prim converters",
                       "the value domain of a type is what its Go representation holds AND its TL-B definition expresses: enumerations take their declared constants, "
                       "Hashmap (without E) has >= 1 entry, W5ExtendedActions >= 1 element, McStateExtraOther/McBlockExtra with their flag-dependent fields present, "
                       "VmCellSlice values come from the library's constructor; VmTuple/VmTupleRef (bodies parametrised by the enclosing length) are not types of their own",
                       "value equality is equality of the harness's canonical reflection dump (exported fields)"]
    tlbcommon.regen_types(ck)
    ck.build_vh()
    if os.environ.get("VERIF_C03_PHASE") == "vmstack":      # development aid: only the VM stack API phase
        return ck.finish(rule=RULE, distinct=vm_stack_api(ck))
    # ---- S->C primitives (decode side of the specification's own cells, encode side of the boundary values)
    vecs, out = tlbcommon.prim_vectors(ck)
    for v, r in zip(vecs, out):
        if r["match"]:
            ck.traces_ok += 1
        else:
            ck.report("C03:prim:%s:%s" % (tlbcommon.type_class(v["type"]), r["what"].split(":")[0]),
                      "type %s value %s: %s" % (v["type"], json.dumps(v["v"])[:200], r["what"]), {"kind": "prim", "vector": v, "got": r})
    ck.evaluations += len(vecs)
    # ---- types whose encoder is declared "not implemented" are exercised decode-side only: TVM tuples built by the specification
    decode_only_tuples(ck)
    # ---- the VM stack API as documented (Put / list order, TL form, accessors, reading into Go values, TL-B structures on the stack)
    nvm = vm_stack_api(ck)
    # ---- C->S round trips of every type
    traces = cellcommon.drive_shards(ck, "C03")
    def val(tp):
        return ck.validate_events("Tlb_Trace", "trace/Tlb_Trace.cfg", tp, timeout=3000, name="trace_" + os.path.basename(tp)[6:8], heap_gb=3,
                                  extra_files={"schema.json": empty})
    empty = os.path.join(ck.work, "empty_schema.json")
    open(empty, "w").write("{}")
    types, withast, refused, distinct = set(), 0, 0, set()
    judged = {"enc": 0, "dec": 0, "enc+dec": 0, "none": 0}
    dict_dec = 0
    for tp, (res, rejected) in zip(traces, vlib.parallel(val, traces, n=8)):
        notes = cellcommon.notes_by_line(res)
        by = {t[1]: t[2] for t in res.tuples("JD")}
        for b in by.values():
            judged[b] = judged.get(b, 0) + 1
        for rj in rejected:
            e = rj["event"]
            note = (notes.get(rj["line"]) or [["no-action"]])[0][0]
            if e.get("k") == "GenFail":
                raise Infra("value generator failed for %s: %s" % (e.get("type"), e.get("panic")))
            ck.report("C03:%s:%s" % (e.get("type"), note), "round trip of a %s value rejected (%s): enc=%s dec=%s enc2=%s %s; value %s" % (
                e.get("type"), note, e.get("enc"), e.get("dec"), e.get("enc2"), e.get("msg", "")[:120], e.get("vs", "")[:300]),
                {"kind": "trace", "event": cellcommon.slim(e, 8000), "note": note})
        for ln, l in enumerate(open(tp), 1):
            e = json.loads(l)
            if e.get("k") == "RT":
                if by.get(ln) in ("dec", "enc+dec") and '[["' in e.get("ds", ""):
                    dict_dec += 1
                types.add(e["type"])
                withast += 1 if e["hasast"] and e["enc"] == "ok" else 0
                refused += 1 if e["enc"] == "err" else 0
                if e["enc"] == "ok":
                    distinct.add((e["type"], e["tree"][:120], len(e["tree"])))
    ck.extra["types"] = len(types)
    ck.extra["roundtrips_with_independent_schema"] = withast
    ck.extra["encoder_refused"] = refused
    ck.extra["bits_judged_by"] = judged                      # which oracle judged the bits of an accepted round trip
    ck.extra["roundtrips_judged_by_Dec"] = judged["dec"] + judged["enc+dec"]
    ck.extra["roundtrips_with_nonempty_dictionary_judged_by_Dec"] = dict_dec
    if judged["dec"] + judged["enc+dec"] < withast // 2:
        raise Infra("the specification's decoder judged only %d of %d round trips with a schema" % (judged["dec"] + judged["enc+dec"], withast))
    if len(types) < 300:
        raise Infra("only %d TL-B types were exercised" % len(types))
    evs = vlib.read_ndjson(traces[0])
    rt = next(e for e in evs if e.get("k") == "RT" and e["enc"] == "ok" and e["hasast"] and len(e["tree"]) > 30)
    ck.sample({"direction": "C->S", "event": cellcommon.slim(rt, 1500)})
    c1 = copy.deepcopy(rt); c1["vs2"] = c1["vs2"] + " "
    c2 = copy.deepcopy(rt); c2["tree"] = c2["tree"][:2] + ("1" if c2["tree"][2] == "0" else "0") + c2["tree"][3:]; c2["tree2"] = c2["tree"]
    c3 = copy.deepcopy(rt); c3["enc"] = "panic: x"
    c4 = copy.deepcopy(rt); c4["dec"] = "err"
    # the decoder's opinion alone: one bit of the structured cell changed (text form untouched) / the value text changed
    c5 = copy.deepcopy(rt); c5["tj"]["b"] = c5["tj"]["b"][:-1] + ("1" if c5["tj"]["b"][-1] == "0" else "0")
    c6 = copy.deepcopy(rt); c6["tj"]["b"] = c6["tj"]["b"] + "0"
    c7 = copy.deepcopy(rt); c7["ds"] = c7["ds"] + " "
    # a value with a non-empty dictionary: only Dec can judge it; one bit of the first leaf changed
    dd = next((e for t in traces for e in vlib.read_ndjson(t) if e.get("k") == "RT" and e["enc"] == "ok" and e.get("hasast") and '[["' in e.get("ds", "")
               and len(json.dumps(e)) < 20000 and leaf_of(e["tj"]) is not None), None)
    if dd is None:
        raise Infra("no round trip with a non-empty dictionary and a schema was recorded")
    c8 = copy.deepcopy(dd); lf = leaf_of(c8["tj"]); lf["b"] = lf["b"][:-1] + ("1" if lf["b"][-1] == "0" else "0")
    p = os.path.join(ck.work, "canary.ndjson")
    vlib.write_ndjson(p, [c1, c2, c3, c4, rt, c5, c6, c7, c8, dd, {"k": "End"}])
    st = (ck.states, ck.transitions, ck.traces_ok, ck.evaluations)
    _, rej = ck.validate_events("Tlb_Trace", "trace/Tlb_Trace.cfg", p, name="canary", extra_files={"schema.json": empty})
    ck.states, ck.transitions, ck.traces_ok, ck.evaluations = st
    ck.canary("C->S: changed value / changed bit (third opinion) / panic / decode error rejected, original accepted; Dec alone: changed bit / extra bit / "
              "changed value text / changed bit in a dictionary leaf rejected, dictionary original accepted", [r["line"] for r in rej] == [1, 2, 3, 4, 6, 7, 8, 9])
    return ck.finish(rule=RULE, distinct=len(distinct) + len(vecs) + nvm)


def leaf_of(tj):
    """deepest first-child cell with data bits (a dictionary leaf when the value holds a dictionary), or None"""
    best, cur = None, tj
    while cur.get("r"):
        cur = cur["r"][0]
        if cur.get("b"):
            best = cur
    return best


def replay(ck, path):
    import c04
    doc = json.load(open(path))
    rp = doc["replay"]
    if rp["kind"] == "prim":
        rc = c04.replay(ck, path)
        return rc
    if rp["kind"] == "vmstack":
        # the cases are regenerated (same tier and seed), run against the current tree and judged again
        ck.tier, ck.seed, ck.thorough = doc.get("tier", "quick"), int(doc.get("seed", 1)), doc.get("tier") == "thorough"
        ck.build_vh()
        vm_stack_api(ck)
        again = [v for v in ck.violations if v["key"] == doc["key"]] or [k for k in ck.known_hit if k["key"] == doc["key"]]
        print("%s: %s" % (doc["key"], "REPRODUCED: " + (again[0].get("what", "")[:600]) if again else "not reproduced on this tree"))
        return 1 if again else 0
    print("recorded event (re-run bin/check C03 to re-record and re-judge):")
    print(json.dumps(rp.get("event"))[:2000])
    return 0
