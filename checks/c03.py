# C03: TL-B values survive encode/decode for every type the library ships (spec/TlbSem.tla, spec/trace/Tlb_Trace.tla).
import json, os, copy
import vlib, cellcommon, tlbcommon
from vlib import Infra

RULE = ("C->S: for every exported TL-B type of packages tlb, wallet, abi (type list regenerated from the working tree) random in-domain "
        "canonical values (integer widths at 0/1/max/top-bit/random, every VarUInteger length, every constructor of every sum type, "
        "optionals present/absent, Either left/right, nested refs, enumerations from their declared constants) go through Marshal, "
        "Unmarshal, Marshal; Tlb_Trace accepts an event only if nothing panics and either the encoder refuses with an error or the "
        "decoded value equals the original (VM stacks in the documented opposite order), the re-encoding is the identical cell tree, "
        "and - wherever reflection yields a complete schema - the cell is exactly the one TlbSem!Enc prescribes (an independent third "
        "opinion on bits and on the constructor chosen) AND the specification's total decoder TlbDec!Dec, reading that cell under the same "
        "schema, returns exactly the recorded value with nothing left unread (an independent decode; it also judges values holding "
        "NON-EMPTY dictionaries, for which Enc prescribes no unique cell: HashmapE nodes carry key width and value schema, dictionaries "
        "are compared as [key bits, value] lists in ascending key order). Tlb_Gen checks Dec(Enc(v)) = v for every vector it emits and "
        "Dec against the reference dictionary writer in every label form. S->C: the boundary-value vectors of Tlb_Gen for all primitive and combinator "
        "types are encoded and decoded by the library; TVM tuples (encoder 'not implemented': decode side only) are built from their schema by VmTuple_Gen and must decode, "
        "as a value, on a stack and through VmStack.UnmarshalTL, to exactly the entries the specification put in. Non-trivial = value other than the zero value; distinct = distinct (type, cell).")


def decode_only_tuples(ck):
    """S->C: VmTuple_Gen (TLC) builds, from the schema of vm_stk_tuple / VmTuple / VmTupleRef, the cells of tuples of 0..5 entries (null,
    tinyint, nan, nested tuples) together with the value each denotes; the library (VmStkTuple.MarshalTLB is "not implemented") must decode
    every well-formed one - as a VmStackValue, on a VmStack and through VmStack.UnmarshalTL - to exactly those entries in order."""
    res = ck.tlc_or_infra("VmTuple_Gen", "gen/VmTuple_Gen_full.cfg" if ck.thorough else "gen/VmTuple_Gen.cfg", workers=4, timeout=900, name="vmtuple", heap_gb=3)
    vecs = [v for v in res.vecs() if v["wf"]]
    if len(vecs) < 20 or not any(v["n"] == 1 for v in vecs):
        raise Infra("VmTuple_Gen wrote only %d well-formed tuples" % len(vecs))
    vp, tp = os.path.join(ck.work, "tuples_vec.ndjson"), os.path.join(ck.work, "tuples_trace.ndjson")
    vlib.write_ndjson(vp, [{k: v[k] for k in ("n", "kind", "wf", "vals", "boc", "stack")} for v in vecs])
    ck.run_vh(["drive", "C08", "-part", "tuples", "-in", vp, "-out", tp, "-tier", ck.tier, "-seed", ck.seed, "-shard", 0, "-shards", 1], timeout=1200)
    evs = [e for e in vlib.read_ndjson(tp) if e.get("k") in ("Tuple", "Panic", "Crash", "Timeout")]   # (Begin records only attribute a death)
    if sum(1 for e in evs if e.get("k") == "Tuple") < len(vecs):
        raise Infra("only %d Tuple events for %d vectors" % (len(evs), len(vecs)))
    ok = copy.deepcopy(next(e for e in evs if e.get("k") == "Tuple" and e.get("res") == "ok" and e.get("n", 0) >= 2))
    bad = copy.deepcopy(ok); bad["got"] = bad["got"] + " "
    vlib.write_ndjson(tp, evs + [bad, ok, {"k": "End", "events": len(evs) + 2}])
    empty = os.path.join(ck.work, "empty.json")
    open(empty, "w").write("{}")
    res, rejected = ck.validate_events("Decode_Trace", "trace/Decode_Trace.cfg", tp, timeout=1800, name="tuples", heap_gb=3,
                                       extra_files={"asts.json": empty, "schema.json": empty})
    canary_hit = False
    for rj in rejected:
        e = rj["event"]
        if rj["line"] == len(evs) + 1:
            canary_hit = True
            continue
        ck.report("C03:tlb.VmStkTuple:decode-only:%s" % ("panic" if e.get("k") in ("Panic", "Crash", "Timeout") else "value"),
                  "a TVM tuple of %s entries built from the schema (%s) is not decoded to the value it denotes: result %s, got %s" % (
                      e.get("n"), str(e.get("vals"))[:200], e.get("res", e.get("k")), str(e.get("got", e.get("panic", "")))[:200]),
                  {"kind": "tuple", "event": cellcommon.slim(e, 6000)})
    ck.canary("S->C: a tuple event whose decoded entries differ from the expectation is rejected, the original accepted",
              canary_hit and not any(rj["line"] == len(evs) + 2 for rj in rejected))
    ck.extra["decode_only_tuples"] = len(evs)


def run(ck):
    ck.assumptions += ["TLC 1.8.0, CommunityModules", "Prim converters",
                       "the value domain of a type is what its Go representation holds AND its TL-B definition expresses: enumerations take their declared constants, "
                       "Hashmap (without E) has >= 1 entry, W5ExtendedActions >= 1 element, McStateExtraOther/McBlockExtra with their flag-dependent fields present, "
                       "VmCellSlice values come from the library's constructor; VmTuple/VmTupleRef (bodies parametrised by the enclosing length) are not types of their own",
                       "value equality is equality of the harness's canonical reflection dump (exported fields)"]
    tlbcommon.regen_types(ck)
    ck.build_vh()
    # ---- S->C primitives (decode side of the specification's own cells, encode side of the boundary values)
    vecs, out = tlbcommon.prim_vectors(ck)
    for v, r in zip(vecs, out):
        if r["match"]:
            ck.traces_ok += 1
        else:
            ck.report("C03:prim:%s:%s" % (tlbcommon.type_class(v["type"]), r["what"].split(":")[0]),
                      "type %s value %s: %s" % (v["type"], json.dumps(v["v"])[:200], r["what"]), {"kind": "prim", "vector": v, "got": r})
    ck.evaluations += len(vecs)
    # ---- types whose encoder is declared "not implemented" are exercised decode-side only: TVM tuples built by the specification
    decode_only_tuples(ck)
    # ---- C->S round trips of every type
    traces = cellcommon.drive_shards(ck, "C03")
    def val(tp):
        return ck.validate_events("Tlb_Trace", "trace/Tlb_Trace.cfg", tp, timeout=3000, name="trace_" + os.path.basename(tp)[6:8], heap_gb=3,
                                  extra_files={"schema.json": empty})
    empty = os.path.join(ck.work, "empty_schema.json")
    open(empty, "w").write("{}")
    types, withast, refused, distinct = set(), 0, 0, set()
    judged = {"enc": 0, "dec": 0, "enc+dec": 0, "none": 0}
    dict_dec = 0
    for tp, (res, rejected) in zip(traces, vlib.parallel(val, traces, n=8)):
        notes = cellcommon.notes_by_line(res)
        by = {t[1]: t[2] for t in res.tuples("JD")}
        for b in by.values():
            judged[b] = judged.get(b, 0) + 1
        for rj in rejected:
            e = rj["event"]
            note = (notes.get(rj["line"]) or [["no-action"]])[0][0]
            if e.get("k") == "GenFail":
                raise Infra("value generator failed for %s: %s" % (e.get("type"), e.get("panic")))
            ck.report("C03:%s:%s" % (e.get("type"), note), "round trip of a %s value rejected (%s): enc=%s dec=%s enc2=%s %s; value %s" % (
                e.get("type"), note, e.get("enc"), e.get("dec"), e.get("enc2"), e.get("msg", "")[:120], e.get("vs", "")[:300]),
                {"kind": "trace", "event": cellcommon.slim(e, 8000), "note": note})
        for ln, l in enumerate(open(tp), 1):
            e = json.loads(l)
            if e.get("k") == "RT":
                if by.get(ln) in ("dec", "enc+dec") and '[["' in e.get("ds", ""):
                    dict_dec += 1
                types.add(e["type"])
                withast += 1 if e["hasast"] and e["enc"] == "ok" else 0
                refused += 1 if e["enc"] == "err" else 0
                if e["enc"] == "ok":
                    distinct.add((e["type"], e["tree"][:120], len(e["tree"])))
    ck.extra["types"] = len(types)
    ck.extra["roundtrips_with_independent_schema"] = withast
    ck.extra["encoder_refused"] = refused
    ck.extra["bits_judged_by"] = judged                      # which oracle judged the bits of an accepted round trip
    ck.extra["roundtrips_judged_by_Dec"] = judged["dec"] + judged["enc+dec"]
    ck.extra["roundtrips_with_nonempty_dictionary_judged_by_Dec"] = dict_dec
    if judged["dec"] + judged["enc+dec"] < withast // 2:
        raise Infra("the specification's decoder judged only %d of %d round trips with a schema" % (judged["dec"] + judged["enc+dec"], withast))
    if len(types) < 300:
        raise Infra("only %d TL-B types were exercised" % len(types))
    evs = vlib.read_ndjson(traces[0])
    rt = next(e for e in evs if e.get("k") == "RT" and e["enc"] == "ok" and e["hasast"] and len(e["tree"]) > 30)
    ck.sample({"direction": "C->S", "event": cellcommon.slim(rt, 1500)})
    c1 = copy.deepcopy(rt); c1["vs2"] = c1["vs2"] + " "
    c2 = copy.deepcopy(rt); c2["tree"] = c2["tree"][:2] + ("1" if c2["tree"][2] == "0" else "0") + c2["tree"][3:]; c2["tree2"] = c2["tree"]
    c3 = copy.deepcopy(rt); c3["enc"] = "panic: x"
    c4 = copy.deepcopy(rt); c4["dec"] = "err"
    # the decoder's opinion alone: one bit of the structured cell changed (text form untouched) / the value text changed
    c5 = copy.deepcopy(rt); c5["tj"]["b"] = c5["tj"]["b"][:-1] + ("1" if c5["tj"]["b"][-1] == "0" else "0")
    c6 = copy.deepcopy(rt); c6["tj"]["b"] = c6["tj"]["b"] + "0"
    c7 = copy.deepcopy(rt); c7["ds"] = c7["ds"] + " "
    # a value with a non-empty dictionary: only Dec can judge it; one bit of the first leaf changed
    dd = next((e for t in traces for e in vlib.read_ndjson(t) if e.get("k") == "RT" and e["enc"] == "ok" and e.get("hasast") and '[["' in e.get("ds", "")
               and len(json.dumps(e)) < 20000 and leaf_of(e["tj"]) is not None), None)
    if dd is None:
        raise Infra("no round trip with a non-empty dictionary and a schema was recorded")
    c8 = copy.deepcopy(dd); lf = leaf_of(c8["tj"]); lf["b"] = lf["b"][:-1] + ("1" if lf["b"][-1] == "0" else "0")
    p = os.path.join(ck.work, "canary.ndjson")
    vlib.write_ndjson(p, [c1, c2, c3, c4, rt, c5, c6, c7, c8, dd, {"k": "End"}])
    st = (ck.states, ck.transitions, ck.traces_ok, ck.evaluations)
    _, rej = ck.validate_events("Tlb_Trace", "trace/Tlb_Trace.cfg", p, name="canary", extra_files={"schema.json": empty})
    ck.states, ck.transitions, ck.traces_ok, ck.evaluations = st
    ck.canary("C->S: changed value / changed bit (third opinion) / panic / decode error rejected, original accepted; Dec alone: changed bit / extra bit / "
              "changed value text / changed bit in a dictionary leaf rejected, dictionary original accepted", [r["line"] for r in rej] == [1, 2, 3, 4, 6, 7, 8, 9])
    return ck.finish(rule=RULE, distinct=len(distinct) + len(vecs))


def leaf_of(tj):
    """deepest first-child cell with data bits (a dictionary leaf when the value holds a dictionary), or None"""
    best, cur = None, tj
    while cur.get("r"):
        cur = cur["r"][0]
        if cur.get("b"):
            best = cur
    return best


def replay(ck, path):
    import c04
    rp = json.load(open(path))["replay"]
    if rp["kind"] == "prim":
        rc = c04.replay(ck, path)
        return rc
    print("recorded event (re-run bin/check C03 to re-record and re-judge):")
    print(json.dumps(rp.get("event"))[:2000])
    return 0
