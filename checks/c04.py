# C04: TL-B encodings are bit-exact with the TON schemas (spec/TlbSem.tla + spec/schemas/block_core.tlb).
import json, os, copy
import vlib, cellcommon, tlbcommon
from vlib import Infra

RULE = ("S->C: for every generated integer / bits / VarUInteger type (all widths) and a set of Maybe / Either / Ref / tag-driven "
        "combinator types, TLC (Tlb_Gen) enumerates the boundary values of the domain (0, 1, max, top bit, alternating; min/-1/max for "
        "signed; every VarUInteger byte length at its smallest and largest value) and emits the cell TlbSem!Enc prescribes; the Go "
        "side must encode to exactly that cell and decode that cell to exactly that value. C->S: random values of the core block.tlb "
        "structures (MsgAddress, Anycast, Grams, CurrencyCollection, CommonMsgInfo, StateInit, Message, ...) are encoded by the "
        "library and compared with Enc under the schema transcribed from block.tlb (tools/tlb2json.py); every message of the real "
        "blocks is decoded from its source cell and the schema's encoding of the decoded value must be that source cell, as must the "
        "library's re-encoding; every transaction is re-encoded and compared where it holds no dictionary entries. In addition the "
        "specification's total decoder TlbDec!Dec reads every recorded cell under the same schema and must return exactly the recorded "
        "value with nothing left unread: this also judges records holding NON-EMPTY dictionaries (transactions with out-messages, "
        "extra currencies, libraries), for which Enc prescribes no unique cell. More of block.tlb (spec/schemas/block_more.tlb: "
        "Account, AccountStorage, AccountState, ShardAccount, DepthBalanceInfo, InMsg, OutMsg, MsgEnvelope, IntermediateAddress, "
        "ImportFees, BlockInfo with its conditional and parametrised fields, BlkPrevInfo, ExtBlkRef, ShardIdent, GlobalVersion, "
        "ValueFlow v1/v2) judges, for each real block of the repository (six), its BlockInfo and ValueFlow, every entry of its "
        "InMsgDescr and OutMsgDescr (leaf = extra value, found by the driver's own dictionary walk, which must list the same keys "
        "as the library) and every account record reachable in the old and new shard state of its Merkle update (records whose "
        "sub-cells are pruned away are only required not to be mis-read). Quick judges at most 24 entries of each dictionary (spread over its keys) and both tiers skip "
        "records that unfold beyond 40 000 units of (64 per cell + data bits) (thorough: all entries, 50 000 units). Non-trivial = "
        "anything but the all-zero value; distinct = distinct (type, cell).")


def _t(ck, what):
    import time
    vlib.log("%s: %s at %.1fs" % (ck.pid, what, time.time() - ck.t0))


def wallet_bodies(ck):
    """S->C: the parameter classes of WalletMsg_Gen (wallet version x message count x seqno / expiry / send-mode classes) go through
    Wallet.RawSend; WalletMsg_Trace accepts a Send event only if the signed body inside the external message has exactly the layout the
    wallet contract's schema prescribes (sub-wallet id, expiry, seqno, op, every send mode as an unsigned byte, out-list / dictionary)."""
    import c14
    vecs = [v for v in c14.gen_vectors(ck) if v["exp"] == "ok" and v["n"] <= 4]
    vp, rp, tp = (os.path.join(ck.work, "wallet_%s.ndjson" % x) for x in ("vec", "rep", "trace"))
    vlib.write_ndjson(vp, vecs)
    ck.run_vh(["replay", "C14", "-in", vp, "-out", rp, "-seed", ck.seed], timeout=1200)
    bodies = [e for e in vlib.read_ndjson(rp) if e.get("k") in ("Send", "Panic")]
    if len(bodies) < len(vecs) // 2:
        raise Infra("only %d wallet Send events for %d cases" % (len(bodies), len(vecs)))
    modes = {m for e in bodies for m in e.get("modes", [])}
    if not any(m >= 128 for m in modes):
        raise Infra("no wallet body with a send mode >= 128 was requested (modes %s)" % sorted(modes))
    vlib.write_ndjson(tp, bodies + [{"k": "End", "events": len(bodies)}])
    rejected, _ = c14.judge(ck, tp, "wallet_bodies")
    for line, e, clauses in rejected:
        ck.report("C04:wallet:%s:%s" % (c14.FAMILY.get(e.get("ver"), e.get("ver")), ",".join(clauses) or e.get("k")),
                  "the body CreateMessageBody built for a %s wallet (%s messages, modes %s) is not the one the wallet's schema prescribes: clause(s) %s" % (
                      e.get("ver"), e.get("n"), e.get("modes"), ",".join(clauses) or e.get("panic", "")),
                  {"kind": "wallet", "event": c14.slim(e)})
    ck.extra["wallet_bodies_judged"] = len(bodies)
    ck.extra["wallet_versions"] = sorted({e.get("ver") for e in bodies})
    # canary: one send mode changed in the recorded request (the body no longer matches it)
    ok = next(e for e in bodies if e.get("k") == "Send" and e.get("err") == "" and e.get("modes"))
    bad = copy.deepcopy(ok); bad["modes"][0] = (bad["modes"][0] + 128) % 256
    cp = os.path.join(ck.work, "wallet_canary.ndjson")
    vlib.write_ndjson(cp, [bad, ok, {"k": "End", "events": 2}])
    rej, _ = c14.judge(ck, cp, "wallet_canary", account=False)
    ck.canary("wallet body: a request whose first send mode differs by 128 from the body is rejected, the original accepted", [r[0] for r in rej] == [1])


def run(ck):
    ck.assumptions += ["TLC 1.8.0, CommunityModules", "Prim converters", "tools/tlb2json.py and the transcription of block.tlb in spec/schemas/block_core.tlb",
                       "encodings containing dictionary entries are not unique and are not compared bit by bit (C05 judges dictionaries)",
                       "values are handed to the Go side through the harness's reflection Undump / Dump (self-checked: Dump(Undump(v)) = v)"]
    tlbcommon.regen_types(ck)
    ck.build_vh()
    _t(ck, "harness built")
    # ---- S->C primitives
    vecs, out = tlbcommon.prim_vectors(ck)
    _t(ck, "primitive vectors replayed")
    for v, r in zip(vecs, out):
        if r["match"]:
            ck.traces_ok += 1
        else:
            ck.report("C04:prim:%s:%s" % (tlbcommon.type_class(v["type"]), r["what"].split(":")[0]),
                      "type %s value %s: %s; specification requires %s, code gave %s" % (v["type"], json.dumps(v["v"])[:200], r["what"], v["text"][:300], json.dumps(r.get("got"))[:300]),
                      {"kind": "prim", "vector": v, "got": r})
    ck.evaluations += len(vecs)
    ck.sample({"direction": "S->C", "vector": {k: vecs[len(vecs) // 2][k] for k in ("type", "v", "text")}})
    v0 = copy.deepcopy(vecs[5]); v0["text"] = v0["text"].replace("[", "1[", 1)
    cp, cr = os.path.join(ck.work, "canary_prim.ndjson"), os.path.join(ck.work, "canary_prim_out.ndjson")
    vlib.write_ndjson(cp, [v0]); ck.run_vh(["replay", "C04", "-in", cp, "-out", cr])
    ck.canary("S->C: an expectation with one extra bit is flagged", not vlib.read_ndjson(cr)[0]["match"])
    # ---- wallet v3/v4/v5/highload bodies: the layouts of spec/WalletMsg.tla (the specification C14 uses), body bits only
    wallet_bodies(ck)
    _t(ck, "wallet bodies judged")
    # ---- C->S core structures and real data
    schema = tlbcommon.schema_file(ck)
    traces = cellcommon.drive_shards(ck, "C04", extra=["schema=" + schema, "summary"])
    _t(ck, "drivers done (%d MB of events)" % (sum(os.path.getsize(t) for t in traces) >> 20))
    def val(tp):
        # big traces: lint / copy in a process of their own, only rejected lines parsed here (tlbcommon.validate_events_big)
        return tlbcommon.validate_events_big(ck, "Tlb_Trace", "trace/Tlb_Trace.cfg", tp, timeout=3000, name="trace_" + os.path.basename(tp)[6:8], heap_gb=3,
                                             extra_files={"schema.json": schema})
    kinds, distinct, cand = {}, set(), {}
    judged = {"enc": 0, "dec": 0, "enc+dec": 0, "none": 0}
    ctors = {}
    real = {}          # type -> {records, by Enc, by Dec, by Dec only (no unique encoding), not comparable (pruned), too big}
    def rec(t):
        return real.setdefault(t, {"records": 0, "judged_by_Enc": 0, "judged_by_Dec": 0, "judged_by_Dec_only": 0, "pruned_not_comparable": 0, "too_big_skipped": 0})
    def line_of(tp, ln):
        with open(tp) as f:
            for i, l in enumerate(f, 1):
                if i == ln:
                    return json.loads(l)
        raise Infra("line %d of %s not found" % (ln, tp))
    for tp, (res, rejected) in zip(traces, vlib.parallel(val, traces, n=8 if ck.thorough else 16)):
        notes = cellcommon.notes_by_line(res)
        by = {t[1]: t[2] for t in res.tuples("JD")}
        for b in by.values():
            judged[b] = judged.get(b, 0) + 1
        # the driver's side file: one short line per event (same line numbers as the trace)
        summ = vlib.read_ndjson(tp + ".sum")
        for ln, e in enumerate(summ, 1):
            kinds[e.get("k")] = kinds.get(e.get("k"), 0) + 1
            if e.get("k") in ("ENC", "DECSRC", "REENC") and e.get("tl"):
                distinct.add((e["type"], e["t200"], e["tl"]))
            if e.get("k") == "DECSRC" and e.get("dec") == "ok":
                # candidates for the samples and canaries below
                if "dtx" not in cand and e["type"] == "Transaction" and not e["unique"] and e.get("outmsgs") and e["tl"] + e["vl"] < 20000:
                    cand["dtx"] = (tp, ln)
                if "binfo" not in cand and e["type"] == "BlockInfo":
                    cand["binfo"] = (tp, ln)
                if "dec" not in cand and e["type"] == "Message" and e["unique"]:
                    cand["dec"] = (tp, ln)
            if "enc" not in cand and e.get("k") == "ENC" and e.get("enc") == "ok" and e["type"] == "CommonMsgInfo":
                cand["enc"] = (tp, ln)
            if e.get("k") == "TooBig":
                rec(e["type"])["too_big_skipped"] += 1
            if e.get("k") != "DECSRC":
                continue
            r = rec(e["type"]); r["records"] += 1
            b = by.get(ln, "")
            r["judged_by_Enc"] += b in ("enc", "enc+dec")
            r["judged_by_Dec"] += b in ("dec", "enc+dec")
            r["judged_by_Dec_only"] += b == "dec"
            r["pruned_not_comparable"] += (b == "none" and bool(e.get("exotic")))
            # which constructors of the tagged unions the real data exercised
            if e.get("ctor") and not (e["type"] == "ShardAccountsLeaf" and b == "none"):
                ctors[e["ctor"]] = ctors.get(e["ctor"], 0) + 1
        for rj in rejected:
            e = rj["event"]
            note = (notes.get(rj["line"]) or [["no-action"]])[0][0]
            if e.get("k") == "Shape":
                ck.report("C04:shape:%s" % e.get("type"), "the Go value of %s does not have the field list of its block.tlb definition (%s): %s; value %s" % (
                    e.get("type"), e.get("where"), e.get("why"), e.get("vs", "")[:300]), {"kind": "trace", "event": cellcommon.slim(e, 6000)})
            elif e.get("k") == "Panic":
                ck.report("C04:real-data:" + e.get("panic", "")[:40], "real block data could not be read: " + e.get("panic", ""), {"kind": "trace", "event": cellcommon.slim(e)})
            else:
                ck.report("C04:%s:%s:%s" % (e.get("k"), e.get("type"), note), "%s event for %s rejected (%s) %s" % (e.get("k"), e.get("type"), note, e.get("where", "")),
                          {"kind": "trace", "event": cellcommon.slim(e, 6000), "note": note})
    _t(ck, "traces judged")
    ck.extra["events_by_kind"] = kinds
    ck.extra["bits_judged_by"] = judged
    ck.extra["events_judged_by_Dec"] = judged["dec"] + judged["enc+dec"]
    ck.extra["events_judged_by_Dec_only_nonunique_encoding"] = judged["dec"]
    ck.extra["real_records"] = real
    ck.extra["real_constructors_seen"] = dict(sorted(ctors.items()))
    # where the Go structs and block.tlb disagree without any bit being different (not violations)
    ck.extra["observations"] = [
        {"where": "tlb/messages.go OutMsg.MsgExportDeqShort.NextWorkchain", "go": "uint32", "block.tlb": "next_workchain:int32",
         "effect": "the same 32 bits; a negative workchain (masterchain -1) is held as 4294967295; the check keeps generated values below 2^31",
         "real_records_with_this_constructor": ctors.get("OutMsg.MsgExportDeqShort", 0), "suggested_patch": "work/fixes_tlb/0002-outmsg-deq-short-next-workchain-int32.patch"},
        {"where": "ShardIdent.ShardPfxBits Uint6 / IntermediateAddressRegular.UseDestBits Uint7 / DepthBalanceInfo.SplitDepth Uint5",
         "block.tlb": "(#<= 60) / (#<= 96) / (#<= 30)", "effect": "same widths; the Go types also hold (and encode / decode without error) values above the bound; "
         "the check keeps generated values within the bound"}]
    for t in ("Transaction", "Message", "BlockInfo", "ValueFlow", "InMsgDescrLeaf", "OutMsgDescrLeaf", "ShardAccountsLeaf"):
        if real.get(t, {}).get("judged_by_Dec", 0) < 1:
            raise Infra("no real %s record was judged by the specification's decoder" % t)
    if kinds.get("DECSRC", 0) < 50:
        raise Infra("only %d real messages were decoded" % kinds.get("DECSRC", 0))
    for need in ("enc", "dec", "dtx", "binfo"):
        if need not in cand:
            raise Infra("no recorded event to build the '%s' canary from" % need)
    enc, dec = line_of(*cand["enc"]), line_of(*cand["dec"])
    ck.sample({"direction": "C->S", "event": cellcommon.slim(enc, 1200)})
    c1 = copy.deepcopy(enc); c1["tree"] = c1["tree"].replace("0", "1", 1) if c1["tree"][2] == "0" else c1["tree"][:2] + "0" + c1["tree"][3:]
    c2 = copy.deepcopy(dec); c2["tree2"] = c2["tree2"][:-3] + "0]}" if not c2["tree2"].endswith("0]}") else c2["tree2"] + "x"
    c3 = copy.deepcopy(dec); c3["dec"] = "panic: boom"
    # the decoder's opinion alone. A transaction with out-messages (no unique encoding: only Dec judges its bits): one bit of
    # the out-message dictionary changed / the recorded value text changed. A BlockInfo: one flag bit of the structured source changed.
    dtx, binfo = line_of(*cand["dtx"]), line_of(*cand["binfo"])
    if dtx is None or binfo is None:
        raise Infra("no transaction with out-messages / no BlockInfo record among the recorded events")
    c4 = copy.deepcopy(dtx)
    node = c4["tj"]["r"][0]["r"][-1]          # root edge of out_msgs:(HashmapE 15 ^Message)
    while not node["b"]:
        node = node["r"][0]
    node["b"] = node["b"][:-1] + ("1" if node["b"][-1] == "0" else "0")
    c5 = copy.deepcopy(dtx); c5["ds"] = c5["ds"].replace("true", "false", 1) if "true" in c5["ds"] else c5["ds"] + " "
    c6 = copy.deepcopy(binfo); b = c6["tj"]["b"]; c6["tj"]["b"] = b[:64] + ("1" if b[64] == "0" else "0") + b[65:]   # not_master
    p = os.path.join(ck.work, "canary.ndjson")
    vlib.write_ndjson(p, [c1, c2, c3, enc, dec, c4, c5, c6, dtx, binfo, {"k": "End"}])
    st = (ck.states, ck.transitions, ck.traces_ok, ck.evaluations)
    _, rej = ck.validate_events("Tlb_Trace", "trace/Tlb_Trace.cfg", p, name="canary", extra_files={"schema.json": schema})
    ck.states, ck.transitions, ck.traces_ok, ck.evaluations = st
    ck.canary("C->S: flipped cell bit / altered re-encoding / recorded panic rejected, originals accepted; Dec alone: changed bit in an out-message "
              "dictionary / changed value text / changed BlockInfo flag bit rejected, originals accepted", [r["line"] for r in rej] == [1, 2, 3, 6, 7, 8])
    return ck.finish(rule=RULE, distinct=len(distinct) + len(vecs))


def replay(ck, path):
    tlbcommon.regen_types(ck)
    ck.build_vh()
    rp = json.load(open(path))["replay"]
    if rp["kind"] == "prim":
        vp, out = os.path.join(ck.work, "v.ndjson"), os.path.join(ck.work, "o.ndjson")
        vlib.write_ndjson(vp, [rp["vector"]])
        ck.run_vh(["replay", "C04", "-in", vp, "-out", out])
        r = vlib.read_ndjson(out)[0]
        print(json.dumps(r))
        if not r["match"]:
            print("VIOLATION property=C04 replay=%s" % path)
            return 1
        return 0
    print("recorded event (re-run bin/check C04 to re-record and re-judge):")
    print(json.dumps(rp.get("event"))[:2000])
    return 0
