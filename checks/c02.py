# C02: cell hash / depth / level follow the TON representation-hash definition (spec/Cells.tla).
import json, os, copy
import vlib, cellcommon
from vlib import Infra

RULE = ("S->C: TLC enumerates well-formed DAGs (Cells_Gen: 5 cell types, masks 0..7, pruned cells with 1..3 stored hashes, "
        "Merkle proof/update over them, nesting depth <= 3) x random header variants; the real parser + Hash()/Level() must report "
        "the specification's values. C->S: every cell of every bag harvested from the repository (real blocks, fixtures), "
        "of in-memory random DAGs, of cells rebuilt through NewCellWithBits(ReadBits) and of MerkleProver proofs is recorded with "
        "its hash (fresh, cached hasher, after reads) and level and re-derived by TLC (Cells!InfoTable). Non-trivial = DAG with "
        ">= 2 cells or an exotic cell; distinct = distinct root hashes.")


def run(ck):
    ck.assumptions += ["TLC 1.8.0, CommunityModules", "Prim!Sha256 (JDK), converters", "SHA-256 collision freedom",
                       "level masks of recorded cells are derived from structure (the API exposes only Level())"]
    ck.build_vh()
    # ---- S->C
    pairs = cellcommon.gen_and_replay(ck)
    nparsed = ndeep = 0
    for v, r in pairs:
        if r["panic"]:
            ck.report("C02:gen:panic:" + v["kind"], "panic on a well-formed bag: " + r["panic"], {"kind": "gen", "vector": v, "got": r})
            continue
        if not r["ok"]:
            continue            # not parsed: C01's concern (foreign bags), not a hash question
        nparsed += 1
        if v["deep"]:
            # a cell that is too deep at one of its levels does not exist: no way of asking may return a hash for it
            ndeep += 1
            if r["hash"] != "" or r["hash2"] != "":
                ck.report("C02:gen:too-deep-hashed:" + v["kind"], "a cell whose depth exceeds 1024 at one of its levels (%s) is given a hash: Hash/HashString %r, caching hasher %r"
                          % (v["tree"][:80], r["hash"], r["hash2"]), {"kind": "gen", "vector": v, "got": r})
            else:
                ck.traces_ok += 1
            continue
        if r["hash2"] != r["hash"]:
            ck.report("C02:gen:hasher:" + v["kind"], "the caching hasher (asked twice) and HashString disagree: %r vs %r" % (r["hash2"], r["hash"]), {"kind": "gen", "vector": v, "got": r})
        elif r["hash"] != v["hash"]:
            ck.report("C02:gen:hash:" + v["kind"], "Hash() of parsed root differs from the specification: want %s got %s" % (v["hash"], r["hash"]),
                      {"kind": "gen", "vector": v, "got": r})
        elif r.get("rt"):
            # "... or on how the cell was obtained": the parsed DAG written by the library itself (8 option combinations) and parsed again
            ck.report("C02:gen:reserialised:" + v["kind"], "hash / structure of a %s DAG (root mask %s) changes when the library serialises and parses it again: %s"
                      % (v["kind"], v["level"], "; ".join(x[:140] for x in r["rt"][:2])), {"kind": "gen", "vector": v, "got": r})
        elif r["level"] != v["level"]:
            ck.report("C02:gen:level:" + v["kind"], "Level() differs: want %d got %d" % (v["level"], r["level"]), {"kind": "gen", "vector": v, "got": r})
        else:
            ck.traces_ok += 1
    ck.evaluations += len(pairs)
    if nparsed < len(pairs) // 4:
        raise Infra("only %d of %d generated bags were parsed: S->C is vacuous" % (nparsed, len(pairs)))
    ck.extra["gen_vectors"] = len(pairs)
    ck.extra["gen_parsed"] = nparsed
    ck.extra["gen_too_deep"] = ndeep
    if ndeep < 5:
        raise Infra("only %d generated bags with a cell beyond the depth bound were parsed" % ndeep)
    vd = next(v for v, r in pairs if v["deep"])
    ck.canary("S->C: a hash returned for a too-deep cell is flagged", vd["hash"] != "")
    ck.sample({"direction": "S->C", "vector": {k: (x if k != "boc" else x[:80] + "...") for k, x in pairs[len(pairs) // 2][0].items()}})
    v0, r0 = next((v, r) for v, r in pairs if r["ok"] and not v["deep"])
    ck.canary("S->C: expectation with one hash digit changed is flagged", (v0["hash"][:-1] + ("0" if v0["hash"][-1] != "0" else "1")) != r0["hash"])

    # ---- C->S
    traces = cellcommon.drive_shards(ck, "C02")
    def val(tp):
        return ck.validate_events("Cells_Trace", "trace/Cells_Trace.cfg", tp, timeout=3000, name="trace_" + os.path.basename(tp)[6:8], heap_gb=3, workers=1)
    roots = set()
    ncells = 0
    nwf = 0
    for tp, (res, rejected) in zip(traces, vlib.parallel(val, traces, n=8)):
        notes = cellcommon.notes_by_line(res)
        bad_lines = {ln for ln, ns in notes.items() for n in ns if n and n[0] == "not-well-formed"}
        nwf += len(bad_lines)
        if bad_lines:
            # cells the library itself produced from well-formed cells (in memory, through ReadBits, as a Merkle proof) or parsed from the
            # repository's own bags must be well-formed: a DAG that is not is a finding, not something outside the quantifier
            for ln, l in enumerate(open(tp), 1):
                if ln in bad_lines:
                    e = json.loads(l)
                    ck.report("C02:table:%s:not-well-formed" % cellcommon.src_class(e),
                              "the cells obtained from source %s do not form a well-formed DAG (Cells!WellFormed: exotic cell layouts, level masks, stored hashes and depths of pruned branches / Merkle cells)" % e.get("src"),
                              {"kind": "trace", "event": cellcommon.slim(e, 20000), "note": "not-well-formed"})
        for rj in rejected:
            e = rj["event"]
            if e["k"] == "Panic":
                ck.report("C02:panic:" + cellcommon.src_class(e), "panic / failure while obtaining or hashing cells: " + e["panic"], {"kind": "trace", "event": cellcommon.slim(e)})
            else:
                note = notes.get(rj["line"], [["?"]])[0]
                ck.report("C02:table:" + cellcommon.src_class(e), "reported hash/level of a cell differs from Cells!InfoTable (%s) in a DAG from source %s" % (note, e.get("src")),
                          {"kind": "trace", "event": cellcommon.slim(e, 20000), "note": note})
        for l in open(tp):
            e = json.loads(l)
            if e.get("k") == "Table":
                ncells += len(e["cells"])
                if len(e["cells"]) > 1 or e["cells"][0]["x"] != 0:
                    roots.add(e["h"][e["roots"][0]])
    ck.extra["cells_judged"] = ncells
    ck.extra["not_well_formed_sources"] = nwf
    evs = vlib.read_ndjson(traces[0])
    small = next(e for e in evs if e.get("k") == "Table" and 2 <= len(e["cells"]) <= 4)
    ck.sample({"direction": "C->S", "event": small})
    # canaries: one wrong hash digit; one wrong level
    c1 = copy.deepcopy(small); c1["h"][-1] = c1["h"][-1][:-1] + ("0" if c1["h"][-1][-1] != "0" else "1")
    c2 = copy.deepcopy(small); c2["cells"][0]["l"] = c2["cells"][0]["l"] + 1
    p = os.path.join(ck.work, "canary.ndjson")
    vlib.write_ndjson(p, [c1, c2, small, {"k": "End"}])
    st = (ck.states, ck.transitions, ck.traces_ok, ck.evaluations)
    _, rej = ck.validate_events("Cells_Trace", "trace/Cells_Trace.cfg", p, name="canary")
    ck.states, ck.transitions, ck.traces_ok, ck.evaluations = st
    ck.canary("C->S: changed hash digit / changed level rejected, original accepted", [r["line"] for r in rej] == [1, 2])
    return ck.finish(rule=RULE, distinct=len(roots) + nparsed)


def replay(ck, path):
    ck.build_vh()
    rp = json.load(open(path))["replay"]
    if rp["kind"] == "gen":
        vp, out = os.path.join(ck.work, "v.ndjson"), os.path.join(ck.work, "o.ndjson")
        vlib.write_ndjson(vp, [rp["vector"]])
        ck.run_vh(["replay", "CELLGEN", "-in", vp, "-out", out])
        r = vlib.read_ndjson(out)[0]
        print(json.dumps(r))
        v = rp["vector"]
        if r["panic"] or (r["ok"] and (r["hash"] != v["hash"] or r["level"] != v["level"])):
            print("VIOLATION property=C02 replay=%s" % path)
            return 1
        return 0
    print("recorded event (re-run bin/check C02 to re-record and re-judge):")
    print(json.dumps(rp.get("event"))[:2000])
    return 0
