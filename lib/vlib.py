# Common machinery of the runner (bin/check): building the Go harness against /repo's working
# tree, running TLC in scratch copies of spec/, trace validation with per-segment acceptance,
# canaries, known-findings matching, evidence writing, exit codes.
import json, os, re, shutil, subprocess, sys, time, glob, random, hashlib
from concurrent.futures import ThreadPoolExecutor

VERIF = os.path.dirname(os.path.dirname(os.path.abspath(__file__)))
REPO = os.environ.get("VERIF_REPO", "/repo")
SPEC = os.path.join(VERIF, "spec")
HARNESS = os.path.join(VERIF, "harness")
TLAJAR = "/opt/veriftools/tla/tla2tools.jar"
CMJAR = "/opt/veriftools/tla/CommunityModules-deps.jar"
NCPU = os.cpu_count() or 4

GOENV = dict(os.environ, GOFLAGS="-mod=mod", GOPROXY="off", GOSUMDB="off", GOTOOLCHAIN="local",
             CGO_ENABLED=os.environ.get("CGO_ENABLED", "0"))


class Infra(Exception):
    """Infrastructure failure: exit 2, never a verdict."""


def log(*a):
    print("[check]", *a, file=sys.stderr, flush=True)


def sh(cmd, cwd=None, env=None, timeout=None, check=True, stdout=subprocess.PIPE, stderr=subprocess.STDOUT):
    p = subprocess.run(cmd, cwd=cwd, env=env, timeout=timeout, stdout=stdout, stderr=stderr, text=True)
    if check and p.returncode != 0:
        raise Infra("command failed (%d): %s\n%s" % (p.returncode, " ".join(cmd), (p.stdout or "")[-4000:]))
    return p


class TLCResult:
    def __init__(self, out, rc, wall):
        self.out, self.rc, self.wall = out, rc, wall
        m = re.findall(r"\b(\d+) states generated, (\d+) distinct states found, (\d+) states left", out)   # \\b: long digit runs in VEC lines made the unanchored pattern quadratic
        self.generated = int(m[-1][0]) if m else 0
        self.distinct = int(m[-1][1]) if m else 0
        self.left = int(m[-1][2]) if m else 0
        ms = re.findall(r"The number of states generated: (\d+)", out)  # simulation mode
        if ms and not m:
            self.generated = int(ms[-1]); self.distinct = int(ms[-1])
        self.completed = "Model checking completed. No error has been found." in out or (
            "Finished in" in out and "Error:" not in out)
        self.invariant_violated = re.findall(r"Error: Invariant (\S+) is violated", out)
        self.deadlock = "Deadlock reached" in out
        self.error = "Error:" in out
        self.prints = [l for l in out.splitlines() if l.startswith("<<")]

    def tuples(self, tag):
        """PrintT(<<"TAG", a, b, ...>>) lines as python lists (numbers and strings only)."""
        res = []
        pre = '<<"%s"' % tag
        for l in self.prints:
            if l.startswith(pre):
                try:
                    res.append(json.loads("[" + l[2:-2] + "]"))
                except Exception:
                    res.append([tag, l])
        return res

    def vecs(self, tag="VEC"):
        """PrintT(<<"VEC", ToJson(x)>>) -> list of decoded JSON objects."""
        res = []
        for t in self.tuples(tag):
            if len(t) >= 2 and isinstance(t[1], str):
                try:
                    res.append(json.loads(t[1]))
                except Exception:
                    pass
        return res

    def coverage_zero(self):
        """(-coverage 1) lines of actions/expressions never evaluated."""
        return [l.strip() for l in self.out.splitlines() if re.search(r": 0$", l.strip()) and l.startswith("<")]


class Check:
    def __init__(self, pid, tier, seed, keep=False):
        self.pid, self.tier, self.seed = pid, tier, int(seed)
        # VERIF_OUT (development aid): scratch, evidence and replay files of runs against another checkout go elsewhere
        self.outdir = os.environ.get("VERIF_OUT", VERIF)
        self.work = os.path.join(self.outdir, "work", pid)
        shutil.rmtree(self.work, ignore_errors=True)
        os.makedirs(self.work)
        os.makedirs(os.path.join(self.outdir, "replays", pid), exist_ok=True)
        # evidence/<id>.json for the listed properties; the extra checks (X01..) write to evidence/extra/
        self.evdir = os.path.join(self.outdir, "evidence") if pid.startswith("C") else os.path.join(self.outdir, "evidence", "extra")
        os.makedirs(self.evdir, exist_ok=True)
        self.t0 = time.time()
        self.states = 0
        self.transitions = 0
        self.traces_ok = 0
        self.evaluations = 0
        self.samples = []
        self.violations = []      # dicts {key, what, replay}
        self.known_hit = []
        self.notes = []
        self.assumptions = []
        self.extra = {}
        self.canaries = []
        self.keep = keep
        self.vh = None
        self._n = 0
        self.rng = random.Random(self.seed)
        self.thorough = tier == "thorough"
        # known_findings.json: the listed properties; extra_findings.json: the extra checks X01.. (same format)
        self.known = []
        for name in ("known_findings.json", "extra_findings.json"):
            kf = os.path.join(VERIF, name)
            if os.path.exists(kf):
                self.known += [k for k in json.load(open(kf))["findings"] if k["property"] == pid]

    # ------------------------------------------------------------------ Go side
    def build_vh(self):
        """Always rebuilds against /repo's current working tree (build cache makes it cheap)."""
        shutil.copy(os.path.join(REPO, "go.sum"), os.path.join(HARNESS, "go.sum"))
        out = os.path.join(self.work, "vh")
        modargs = []
        if os.path.realpath(REPO) != "/repo":
            # development aid (seeded-defect runs): link the harness against another checkout without touching /repo
            alt = os.path.join(self.work, "go.alt.mod")
            open(alt, "w").write(open(os.path.join(HARNESS, "go.mod")).read().replace("=> /repo", "=> " + os.path.realpath(REPO)))
            shutil.copy(os.path.join(REPO, "go.sum"), os.path.join(self.work, "go.alt.sum"))
            modargs = ["-modfile", alt]
        for attempt in range(4):
            # development aid: VERIF_COVER=1 builds the harness with coverage of the library's packages; run with GOCOVERDIR=<dir>
            # to see which functions of /repo the drivers reach (tools/api_coverage.py)
            cover = ["-cover", "-coverpkg=./...,github.com/tonkeeper/tongo/..."] if os.environ.get("VERIF_COVER") else []
            p = sh(["go", "build"] + modargs + cover + ["-tags", "verif", "-o", out, "./cmd/vh"], cwd=HARNESS, env=GOENV, check=False, timeout=900)
            # while several people edit harness/ concurrently another package may be mid-edit: retry when the
            # errors are outside this property's own package
            own = "internal/%s/" % self.pid.lower()
            if p.returncode == 0 or own in p.stdout or "/repo/" in p.stdout or os.environ.get("VERIF_NO_RETRY"):
                break
            time.sleep(20)
        if p.returncode != 0:
            raise Infra("harness does not build against /repo:\n" + p.stdout[-6000:])
        self.vh = out
        return out

    def run_vh(self, args, timeout=900, check=True, env=None, mem_gb=None):
        e = dict(GOENV)
        if env:
            e.update(env)
        if mem_gb:
            e["GOMEMLIMIT"] = "%dMiB" % int(mem_gb * 1024)
        p = sh([self.vh] + [str(a) for a in args], cwd=self.work, env=e, timeout=timeout, check=False)
        if check and p.returncode != 0:
            raise Infra("vh %s failed (%d):\n%s" % (" ".join(map(str, args)), p.returncode, p.stdout[-4000:]))
        return p

    def go_test_inpkg(self, pkg, files, run, extra_env=None, timeout=900, race=False, args=()):
        """Compile in-package driver files (from /verif/harness/inpkg/<pkg>/) INTO the package of the
        working tree with -overlay (adds files only; never replaces a source file) and run them."""
        ov = {"Replace": {}}
        for f in files:
            ov["Replace"][os.path.join(REPO, pkg, "zz_verif_" + os.path.basename(f))] = f
        ovp = os.path.join(self.work, "overlay_%s.json" % pkg.replace("/", "_"))
        json.dump(ov, open(ovp, "w"))
        cmd = ["go", "test", "-tags", "verif", "-vet=off", "-count=1", "-overlay", ovp, "-run", run, "-timeout", "%ds" % timeout]
        if race:
            cmd.append("-race")
        cmd += ["./" + pkg] + (["-args"] + list(args) if args else [])
        e = dict(GOENV)
        if race:
            e["CGO_ENABLED"] = "1"
        if extra_env:
            e.update(extra_env)
        return sh(cmd, cwd=REPO, env=e, timeout=timeout + 60, check=False)

    # ----------------------------------------------------------------- TLC side
    def tlc(self, module, cfg, files=None, workers=1, args=(), timeout=900, heap_gb=3, name=None, deque=False):
        """Run TLC on spec/<...>/<module>.tla in a scratch copy of spec/. `cfg` is a path relative to spec/.
        `files` maps names in the scratch dir to source paths (e.g. {"trace.ndjson": path})."""
        self._n += 1
        d = os.path.join(self.work, "tlc_%02d_%s" % (self._n, name or module))
        os.makedirs(d)
        for pat in ("*.tla", "*.class", "trace/*.tla", "gen/*.tla", "mc/*.tla"):
            for f in glob.glob(os.path.join(SPEC, pat)):
                shutil.copy(f, d)
        shutil.copy(os.path.join(SPEC, cfg), os.path.join(d, module + ".cfg"))
        for k, v in (files or {}).items():
            if os.path.abspath(v) != os.path.abspath(os.path.join(d, k)):
                try:
                    os.link(v, os.path.join(d, k))
                except OSError:
                    shutil.copy(v, os.path.join(d, k))
        if not os.path.exists(os.path.join(d, "Prim.class")):
            sh(["javac", "-cp", TLAJAR, "-d", d, os.path.join(SPEC, "Prim.java")], timeout=120)
        md = os.path.join(d, "md")
        # many TLC processes run side by side (one per shard): keep each JVM's GC thread pool small
        jopts = ["-Xss512m", "-Xmx%dg" % heap_gb, "-XX:+UseParallelGC", "-XX:ParallelGCThreads=%d" % (2 if workers <= 2 else 4)]
        if deque:
            jopts.append("-Dtlc2.tool.queue.IStateQueue=StateDeque")
        # TLC makes a temporary directory per run: keep it inside the scratch directory (wiped with it), not in /tmp
        jtmp = os.path.join(d, "jtmp")
        os.makedirs(jtmp, exist_ok=True)
        jopts.append("-Djava.io.tmpdir=" + jtmp)
        cmd = ["timeout", "-k", "10", str(timeout), "java"] + jopts + ["-cp", "%s:%s:%s" % (TLAJAR, CMJAR, d), "tlc2.TLC",
               "-workers", str(workers), "-metadir", md, "-noGenerateSpecTE", "-config", module + ".cfg"] + list(args) + [module]
        t = time.time()
        p = subprocess.run(cmd, cwd=d, stdout=subprocess.PIPE, stderr=subprocess.STDOUT, text=True)
        wall = time.time() - t
        shutil.rmtree(md, ignore_errors=True)
        shutil.rmtree(os.path.join(d, "states"), ignore_errors=True)
        out = "\n".join(l for l in p.stdout.splitlines() if not l.startswith("Loading "))
        open(os.path.join(d, "tlc.out"), "w").write(out)
        if p.returncode == 124 or p.returncode == 137:
            raise Infra("TLC timed out after %ds on %s" % (timeout, module))
        res = TLCResult(out, p.returncode, wall)
        res.dir = d
        if "java.lang.OutOfMemoryError" in out or "StackOverflowError" in out:
            raise Infra("TLC resource failure on %s:\n%s" % (module, out[-2000:]))
        self.states += res.distinct
        self.transitions += res.generated
        return res

    def tlc_or_infra(self, *a, **kw):
        """TLC run that must complete without any error (generators, model checking of the design)."""
        res = self.tlc(*a, **kw)
        if res.error or res.rc != 0:
            raise Infra("TLC reported an error on %s (see %s/tlc.out):\n%s" % (a[0], res.dir, tail_errors(res.out)))
        return res

    # ------------------------------------------------- trace validation (C->S)
    def validate_segments(self, module, cfg, trace_path, timeout=900, name=None, heap_gb=2, extra_files=None, deque=False):
        """Run a *_Trace spec over trace_path. Returns (res, rejected) where rejected is a list of
        dicts {seg, accepted, length, line (1-based index of first rejected line), event}."""
        lines = open(trace_path).read().splitlines()
        lint_trace(lines, trace_path)
        evs = [json.loads(l) for l in lines]
        starts = [i + 1 for i, e in enumerate(evs) if e.get("k") == "Reset"]
        if not starts:
            raise Infra("trace %s has no segments" % trace_path)
        # the End record is bookkeeping for the runner, not for the specification
        body = [l for l, e in zip(lines, evs) if e.get("k") != "End"]
        tp = trace_path + ".tlc"
        open(tp, "w").write("\n".join(body) + "\n")
        evs = [e for e in evs if e.get("k") != "End"]
        files = {"trace.ndjson": tp}
        files.update(extra_files or {})
        res = self.tlc(module, cfg, files=files, workers=1, timeout=timeout, name=name, heap_gb=heap_gb, deque=deque)
        segs = {t[1]: t[2] for t in res.tuples("SEG")}
        if res.error and not segs:
            raise Infra("TLC failed on %s (see %s/tlc.out):\n%s" % (module, res.dir, tail_errors(res.out)))
        if res.error:
            raise Infra("TLC error during trace validation of %s (see %s/tlc.out):\n%s" % (module, res.dir, tail_errors(res.out)))
        if sorted(segs) != starts:
            raise Infra("segment report incomplete for %s: %d of %d" % (module, len(segs), len(starts)))
        rejected = []
        bounds = starts + [len(evs) + 1]
        for i, st in enumerate(starts):
            length = bounds[i + 1] - st
            acc = segs[st]
            if acc < length:
                line = st + acc
                rejected.append({"seg": st, "accepted": acc, "length": length, "line": line, "event": evs[line - 1],
                                 "segment": evs[st - 1:bounds[i + 1] - 1]})
            else:
                self.traces_ok += 1
        self.evaluations += len(evs)
        return res, rejected

    def validate_events(self, module, cfg, trace_path, timeout=900, name=None, heap_gb=2, workers=1, extra_files=None):
        """Pure-judgement traces: every line is judged on its own (Init: l \\in 1..N; one step prints
        <<"EV", l, "ok"|"bad">>). Returns (res, rejected) with rejected = [{line, event}]."""
        lines = open(trace_path).read().splitlines()
        lint_trace(lines, trace_path)
        evs = [json.loads(l) for l in lines]
        body = [l for l, e in zip(lines, evs) if e.get("k") != "End"]
        evs = [e for e in evs if e.get("k") != "End"]
        if not evs:
            raise Infra("trace %s has no events" % trace_path)
        tp = trace_path + ".tlc"
        open(tp, "w").write("\n".join(body) + "\n")
        files = {"trace.ndjson": tp}
        files.update(extra_files or {})
        res = self.tlc(module, cfg, files=files, workers=workers, timeout=timeout, name=name, heap_gb=heap_gb)
        if res.error or res.rc != 0:
            raise Infra("TLC error during event validation of %s (see %s/tlc.out):\n%s" % (module, res.dir, tail_errors(res.out)))
        verdict = {t[1]: t[2] for t in res.tuples("EV")}
        if sorted(verdict) != list(range(1, len(evs) + 1)):
            raise Infra("verdicts incomplete for %s: %d of %d" % (module, len(verdict), len(evs)))
        rejected = [{"line": i, "event": evs[i - 1]} for i in sorted(verdict) if verdict[i] != "ok"]
        self.traces_ok += len(evs) - len(rejected)
        self.evaluations += len(evs)
        res.notes = res.tuples("NOTE")
        return res, rejected

    # ------------------------------------------------------------ verdict logic
    def report(self, key, what, replay_obj):
        """Record a violation observed on the real code under `key`; known findings are matched by key."""
        for k in self.known:
            if k["status"] == "known" and k["key"] == key:
                if key not in [x["key"] for x in self.known_hit]:
                    self.known_hit.append({"key": key, "what": k["what"]})
                return
        if any(v["key"] == key for v in self.violations):
            for v in self.violations:
                if v["key"] == key:
                    v["count"] = v.get("count", 1) + 1
            return
        safe = re.sub(r"[^A-Za-z0-9_.=-]+", "_", key)[:80]
        path = os.path.join(self.outdir, "replays", self.pid, "%s-%d.json" % (safe, self.seed))
        json.dump({"property": self.pid, "key": key, "what": what, "tier": self.tier, "seed": self.seed, "replay": replay_obj},
                  open(path, "w"), indent=1, default=str)
        self.violations.append({"key": key, "what": what, "replay": path})

    def canary(self, name, rejected_as_expected):
        self.canaries.append({"name": name, "rejected": bool(rejected_as_expected)})
        if not rejected_as_expected:
            if self.violations or self.known_hit:
                # canaries derived from recorded behaviour can break when the code under test is broken:
                # the violations already found stand; the canary failure is noted
                self.notes.append("canary '%s' did not behave as required on this (violating) run" % name)
                return
            raise Infra("canary '%s' was ACCEPTED: the check constrains nothing" % name)

    def sample(self, obj):
        if len(self.samples) < 6:
            s = json.dumps(obj, default=str)
            self.samples.append(obj if len(s) < 1500 else s[:1500] + "...")

    def finish(self, level="model_checking", rule="", distinct=None, exhaustive=False):
        wall = time.time() - self.t0
        cov = {"states": self.states, "transitions": self.transitions,
               "traces_validated_against_impl": self.traces_ok,
               "evaluations": self.evaluations, "samples": self.samples or ["(none)"],
               "rule": rule, "canaries": self.canaries,
               "known_findings_hit": [k["key"] for k in self.known_hit],
               "exhaustive": exhaustive}
        if distinct is not None:
            cov["distinct_nontrivial"] = distinct
        cov.update(self.extra)
        evd = {"property_id": self.pid, "tier": self.tier, "seed": self.seed, "level": level, "coverage": cov,
               "assumptions": self.assumptions, "wall_s": round(wall, 1), "violations": len(self.violations),
               "notes": self.notes}
        json.dump(evd, open(os.path.join(self.evdir, self.pid + ".json"), "w"), indent=1, default=str)
        for k in self.known_hit:
            print("KNOWN-FINDING: property=%s %s — %s" % (self.pid, k["key"], k["what"]))
        for v in self.violations:
            print("VIOLATION property=%s replay=%s   # %s: %s" % (self.pid, v["replay"], v["key"], v["what"][:300]))
        if not self.keep:
            # traces can be large; keep only TLC outputs
            for f in glob.glob(os.path.join(self.work, "**", "*.ndjson*"), recursive=True):
                try:
                    os.remove(f)
                except OSError:
                    pass
        log("%s %s seed=%d: states=%d transitions=%d traces_ok=%d evaluations=%d violations=%d known=%d wall=%.1fs" % (
            self.pid, self.tier, self.seed, self.states, self.transitions, self.traces_ok, self.evaluations,
            len(self.violations), len(self.known_hit), wall))
        return 1 if self.violations else 0


def tail_errors(out, n=30):
    ls = out.splitlines()
    idx = [i for i, l in enumerate(ls) if l.startswith("Error:") or "Exception" in l]
    if not idx:
        return "\n".join(ls[-n:])
    i = idx[0]
    return "\n".join(ls[i:i + n])


_num = re.compile(r'(?<![\w."])-?\d{10,}(?![\w"])')


def lint_trace(lines, path):
    """The Json module rejects null and silently wraps numbers >= 2^31: refuse both before TLC sees them."""
    if not lines:
        raise Infra("empty trace " + path)
    try:
        last = json.loads(lines[-1])
    except Exception:
        raise Infra("trace %s: last line is not JSON (driver died?)" % path)
    if last.get("k") != "End":
        raise Infra("trace %s has no End record (driver died?)" % path)
    for i, l in enumerate(lines):
        if "null" in l and re.search(r'(?<!")\bnull\b(?!")', l):
            raise Infra("trace %s line %d contains JSON null" % (path, i + 1))
        quotes, pos = 0, 0
        for m in _num.finditer(l):
            # inside a string? cheap test: count quotes before the match (incrementally: lines can be megabytes long and hold
            # thousands of digit runs; a match starts with a digit or '-', so no \" pair straddles a segment boundary)
            quotes += l.count('"', pos, m.start()) - l.count('\\"', pos, m.start())
            pos = m.start()
            if quotes % 2 == 0 and abs(int(m.group())) >= 2 ** 31:
                raise Infra("trace %s line %d carries a number >= 2^31 as a JSON number" % (path, i + 1))


def parallel(fn, items, n=NCPU):
    with ThreadPoolExecutor(max_workers=n) as ex:
        return list(ex.map(fn, items))


def write_ndjson(path, objs):
    with open(path, "w") as f:
        for o in objs:
            f.write(json.dumps(o) + "\n")


def read_ndjson(path):
    return [json.loads(l) for l in open(path) if l.strip()]
